------------------------------- MODULE Router -------------------------------
(***************************************************************************)
(* Registration, the route trie, request lookup, 404/405 + Allow, and the  *)
(* operation list of the OpenAPI document.                                 *)
(*                                                                         *)
(* Code anchors (dropshot/src):                                            *)
(*   api_description.rs  register, validate_tags, validate_path_parameters,*)
(*                       validate_named_parameters, gen_openapi (visible)  *)
(*   router.rs           insert, insert_var, lookup_route,                 *)
(*                       find_handler_matching_version, HttpRouterIter,    *)
(*                       route_path_to_segments, PathSegment::from         *)
(*                                                                         *)
(* The module has two halves.  The *procedural* half transcribes what the  *)
(* code does: the trie is a function from node ids to records shaped like  *)
(* HttpRouterNode, Insert walks it segment by segment with the code's      *)
(* panics, Lookup walks it like lookup_route.  The *declarative* half is   *)
(* an oracle that knows nothing about tries: a template matcher, a range   *)
(* semantics and the list of conflicts named by property C02.  The         *)
(* invariants say that the first half implements the second.               *)
(*                                                                         *)
(* Rejected registrations do not create successor states: in every state   *)
(* the outcome of registering *each* pool descriptor next is computed and  *)
(* compared with the oracle (AcceptIffNoConflict), and printed in the      *)
(* state's replay vector, so the real code is asked the same question.     *)
(***************************************************************************)
EXTENDS Naturals, Sequences, FiniteSets, TLC, Versions

CONSTANTS
  Pool,            \* endpoint descriptors the model may register
  ReqMethods,      \* methods of the request universe
  SegAlpha,        \* segment strings of the request universe
  MaxReqLen,       \* longest request path (in segments)
  ProbeVers,       \* request versions; 0 = no version (unversioned server)
  MaxRegs,         \* bound on the number of Register steps
  TagPolicy,       \* "any" | "atleastone" | "exactlyone"
  AllowOtherTags,  \* BOOLEAN
  KnownTags,       \* tags named in the tag configuration
  KnownOpen,       \* known-finding keys [prop, kind, shape] that are open
  Props            \* the property ids whose violations this run decides

(***************************************************************************)
(* An endpoint descriptor is a record                                      *)
(*   id    : unique natural (operation id "e<id>")                         *)
(*   m     : method (upper case)                                           *)
(*   bad   : "none", or the way its path string is malformed               *)
(*           ("noslash","emptyseg","badbrace","emptyvar","badpat")         *)
(*   tpl   : sequence of segments [k: "lit"|"var"|"wild", s: string]       *)
(*   r     : version range (Versions.tla)                                  *)
(*   vis   : BOOLEAN (published in the document)                           *)
(*   pty   : function  path-parameter name  -> type class                  *)
(*   qty   : function  query-parameter name -> type class                  *)
(*           type class: "s" scalar, "a" array of strings, "o" other       *)
(*   tags  : set of strings                                                *)
(***************************************************************************)

VARIABLES
  trie,     \* node id (sequence of edge segments) -> node record
  eps,      \* set of accepted descriptors
  hist      \* sequence of accepted descriptor ids, in registration order

vars == <<trie, eps, hist>>
View == <<trie, eps>>

\* A node: kind of outgoing edges ("none" until the first child), the
\* variable name for var/wild edges, the literal children, and the method
\* table  method -> sequence of descriptors in insertion order.
EmptyNode == [ek |-> "none", vn |-> "", kids |-> {}, methods |-> [x \in {} |-> <<>>]]
Root == <<>>

MethodKeys(n) == DOMAIN n.methods
MethodList(n, m) == IF m \in DOMAIN n.methods THEN n.methods[m] ELSE <<>>
PushMethod(n, m, e) ==
  [n EXCEPT !.methods = [x \in (DOMAIN n.methods) \cup {m} |->
      IF x = m THEN Append(MethodList(n, m), e) ELSE n.methods[x]]]

\* ---------------------------------------------------------------------------
\* api_description.rs: the three validators, in the order register() runs them
\* ---------------------------------------------------------------------------
ValidateTags(e) ==
  IF ~e.vis THEN "ok"
  ELSE IF TagPolicy = "atleastone" /\ Cardinality(e.tags) = 0 THEN "err"
  ELSE IF TagPolicy = "exactlyone" /\ Cardinality(e.tags) # 1 THEN "err"
  ELSE IF ~AllowOtherTags /\ ~(e.tags \subseteq KnownTags) THEN "err"
  ELSE "ok"

TplVars(tpl) == {tpl[i].s : i \in {j \in DOMAIN tpl : tpl[j].k \in {"var", "wild"}}}

\* kind of the *last* occurrence of a name (the code collects into a BTreeMap)
KindOfVar(tpl, name) ==
  LET I == {i \in DOMAIN tpl : tpl[i].k \in {"var", "wild"} /\ tpl[i].s = name}
      last == CHOOSE i \in I : \A j \in I : j <= i
  IN tpl[last].k

ValidatePathParams(e) ==
  IF e.bad # "none" THEN "panic"     \* route_path_to_segments / PathSegment::from
  ELSE IF TplVars(e.tpl) # DOMAIN e.pty THEN "err"
  ELSE "ok"

ValidateNamed(e) ==
  IF \E n \in DOMAIN e.pty :
        \/ KindOfVar(e.tpl, n) = "var"  /\ e.pty[n] # "s"
        \/ KindOfVar(e.tpl, n) = "wild" /\ e.pty[n] # "a"
     THEN "err"
  ELSE IF \E n \in DOMAIN e.qty : n \in TplVars(e.tpl) \/ e.qty[n] # "s" THEN "err"
  ELSE "ok"

\* ---------------------------------------------------------------------------
\* router.rs insert: walk / extend the trie
\* ---------------------------------------------------------------------------
Child(node, kind, name) == Append(node, [k |-> kind, s |-> name])

EnsureNode(t, id) == IF id \in DOMAIN t THEN t ELSE t @@ (id :> EmptyNode)

RECURSIVE InsWalk(_, _, _, _, _)
InsWalk(t, tpl, i, node, seen) ==
  IF i > Len(tpl) THEN [st |-> "ok", t |-> t, node |-> node]
  ELSE
    LET sg == tpl[i]
        n  == t[node]
    IN
    CASE sg.k = "lit" ->
           IF n.ek \in {"var", "wild"} THEN [st |-> "panic", why |-> "lit-at-var"]
           ELSE LET c  == Child(node, "lit", sg.s)
                    t1 == [t EXCEPT ![node] = [@ EXCEPT !.ek = "lit", !.kids = @ \cup {sg.s}]]
                IN InsWalk(EnsureNode(t1, c), tpl, i + 1, c, seen)
      [] sg.k = "var" ->
           IF sg.s \in seen THEN [st |-> "panic", why |-> "dup-var"]
           ELSE IF n.ek = "lit" THEN [st |-> "panic", why |-> "var-at-lit"]
           ELSE IF n.ek = "wild" THEN [st |-> "panic", why |-> "var-at-wild"]
           ELSE IF n.ek = "var" /\ n.vn # sg.s THEN [st |-> "panic", why |-> "var-name"]
           ELSE LET c  == Child(node, "var", sg.s)
                    t1 == [t EXCEPT ![node] = [@ EXCEPT !.ek = "var", !.vn = sg.s]]
                IN InsWalk(EnsureNode(t1, c), tpl, i + 1, c, seen \cup {sg.s})
      [] sg.k = "wild" ->
           IF i < Len(tpl) THEN [st |-> "panic", why |-> "seg-after-wild"]
           ELSE IF sg.s \in seen THEN [st |-> "panic", why |-> "dup-var"]
           ELSE IF n.ek = "lit" THEN [st |-> "panic", why |-> "wild-at-lit"]
           ELSE IF n.ek = "var" THEN [st |-> "panic", why |-> "wild-at-var"]
           ELSE IF n.ek = "wild" /\ n.vn # sg.s THEN [st |-> "panic", why |-> "wild-name"]
           ELSE LET c  == Child(node, "wild", sg.s)
                    t1 == [t EXCEPT ![node] = [@ EXCEPT !.ek = "wild", !.vn = sg.s]]
                IN InsWalk(EnsureNode(t1, c), tpl, i + 1, c, seen \cup {sg.s})

Insert(t, e) ==
  LET w == InsWalk(t, e.tpl, 1, Root, {}) IN
  IF w.st # "ok" THEN w
  ELSE
    LET n == w.t[w.node]
        existing == MethodList(n, e.m)
    IN IF \E i \in DOMAIN existing : OverlapsCode(existing[i].r, e.r)
       THEN [st |-> "panic", why |-> "overlap"]
       ELSE [st |-> "ok", t |-> [w.t EXCEPT ![w.node] = PushMethod(n, e.m, e)]]

\* register(): validators in order, then insert.  Err leaves the description
\* unchanged; a panic ends the use of the description (named deviation: the
\* real insert may have mutated the trie before panicking).
RegisterOutcome(t, e) ==
  IF ValidateTags(e) # "ok" THEN [st |-> "err", why |-> "tags"]
  ELSE IF ValidatePathParams(e) = "panic" THEN [st |-> "panic", why |-> "malformed-path"]
  ELSE IF ValidatePathParams(e) = "err" THEN [st |-> "err", why |-> "path-params"]
  ELSE IF ValidateNamed(e) # "ok" THEN [st |-> "err", why |-> "named-params"]
  ELSE Insert(t, e)

\* ---------------------------------------------------------------------------
\* router.rs lookup_route (after input_path_to_segments, which PathNorm.tla
\* specifies): walk, implicit empty wildcard step, method table, 404/405.
\* ---------------------------------------------------------------------------
NoVars == [x \in {} |-> 0]
SetVar(vs, name, val) == [x \in (DOMAIN vs) \cup {name} |-> IF x = name THEN val ELSE vs[x]]

RECURSIVE LookWalk(_, _, _, _, _)
LookWalk(t, segs, i, node, vs) ==
  IF i > Len(segs) THEN [found |-> TRUE, node |-> node, vars |-> vs]
  ELSE
    LET n == t[node] IN
    CASE n.ek = "none" -> [found |-> FALSE]
      [] n.ek = "lit" ->
           IF segs[i] \in n.kids
           THEN LookWalk(t, segs, i + 1, Child(node, "lit", segs[i]), vs)
           ELSE [found |-> FALSE]
      [] n.ek = "var" ->
           LookWalk(t, segs, i + 1, Child(node, "var", n.vn),
                    SetVar(vs, n.vn, [s |-> segs[i]]))
      [] n.ek = "wild" ->
           [found |-> TRUE, node |-> Child(node, "wild", n.vn),
            vars |-> SetVar(vs, n.vn, [c |-> SubSeq(segs, i, Len(segs))])]

FirstMatch(list, v) ==
  IF \E i \in DOMAIN list : MatchesCode(list[i].r, v)
  THEN LET i == CHOOSE i \in DOMAIN list :
                   /\ MatchesCode(list[i].r, v)
                   /\ \A j \in DOMAIN list : j < i => ~MatchesCode(list[j].r, v)
       IN [some |-> TRUE, e |-> list[i]]
  ELSE [some |-> FALSE]

\* Allow header of a 405 as the code builds it: the method keys of the node
\* that have a handler matching the request's version.
AllowCode(n, v) == {mm \in MethodKeys(n) : FirstMatch(MethodList(n, mm), v).some}

Lookup(t, m, segs, v) ==
  LET w == LookWalk(t, segs, 1, Root, NoVars) IN
  IF ~w.found THEN [k |-> "404"]
  ELSE
    LET n0 == t[w.node]
        \* "the wildcard match consumes the implicit, empty path segment"
        viaEmpty == n0.ek = "wild"
        node == IF viaEmpty THEN Child(w.node, "wild", n0.vn) ELSE w.node
        vs == IF viaEmpty THEN SetVar(w.vars, n0.vn, [c |-> <<>>]) ELSE w.vars
        n == t[node]
        fm == FirstMatch(MethodList(n, m), v)
    IN IF fm.some THEN [k |-> "ok", e |-> fm.e.id, vars |-> vs]
       ELSE IF \E mm \in MethodKeys(n) : FirstMatch(MethodList(n, mm), v).some
            THEN [k |-> "405", allow |-> AllowCode(n, v)]
            ELSE [k |-> "404"]

\* ---------------------------------------------------------------------------
\* router.rs HttpRouterIter + gen_openapi's visibility filter: the set of
\* operations the document for version v lists.  (The iteration order is not
\* modelled; byte-identity of documents across registration orders is checked
\* on the real code by the replayer.)
\* ---------------------------------------------------------------------------
PrintSeg(sg) == IF sg.k = "lit" THEN sg.s ELSE "{" \o sg.s \o "}"
   \* iter_node() yields VarnameSegment for both kinds of variable edge, so a
   \* wildcard is printed as {name} -- modelled as the code does it.
RECURSIVE PrintPath(_)
PrintPath(node) ==
  IF node = <<>> THEN ""
  ELSE PrintPath(SubSeq(node, 1, Len(node) - 1)) \o "/" \o PrintSeg(node[Len(node)])
Printed(node) == IF node = <<>> THEN "/" ELSE PrintPath(node)

DocOps(t, v) ==
  UNION { UNION { { [path |-> Printed(node), m |-> m, id |-> t[node].methods[m][i].id] :
                      i \in { j \in DOMAIN t[node].methods[m] :
                                /\ MatchesCode(t[node].methods[m][j].r, v)
                                /\ t[node].methods[m][j].vis } } :
                  m \in MethodKeys(t[node]) } :
          node \in DOMAIN t }

\* ===========================================================================
\* Declarative half: the oracle
\* ===========================================================================
WellFormed(tpl) ==
  /\ \A i \in DOMAIN tpl : tpl[i].k = "wild" => i = Len(tpl)
  /\ \A i, j \in DOMAIN tpl :
       (i # j /\ tpl[i].k # "lit" /\ tpl[j].k # "lit") => tpl[i].s # tpl[j].s

SegMatch(sg, s) == sg.k = "var" \/ (sg.k = "lit" /\ sg.s = s)

HasWild(tpl) == Len(tpl) > 0 /\ tpl[Len(tpl)].k = "wild"

MatchT(tpl, segs) ==
  IF HasWild(tpl)
  THEN /\ Len(segs) >= Len(tpl) - 1
       /\ \A i \in 1..(Len(tpl) - 1) : SegMatch(tpl[i], segs[i])
  ELSE /\ Len(segs) = Len(tpl)
       /\ \A i \in 1..Len(tpl) : SegMatch(tpl[i], segs[i])

Bind(tpl, segs) ==
  [x \in TplVars(tpl) |->
     LET i == CHOOSE i \in DOMAIN tpl : tpl[i].k # "lit" /\ tpl[i].s = x IN
     IF tpl[i].k = "var" THEN [s |-> segs[i]] ELSE [c |-> SubSeq(segs, i, Len(segs))]]

Served(e, m, segs, v) == e.m = m /\ MatchT(e.tpl, segs) /\ InRange(e.r, v)

ServedSet(S, m, segs, v) == {e \in S : Served(e, m, segs, v)}

\* versions on which ranges are compared: every probe but 0
Grid == ProbeVers \ {0}
SharesVersion(r1, r2) == IF Grid = {} THEN TRUE ELSE Shared(r1, r2, Grid)

\* The conflicts listed by property C02, one disjunct each.
SamePrefix(t1, t2, n) == \A i \in 1..n : t1[i] = t2[i]
PositionClash(t1, t2) ==
  \E i \in 1..(IF Len(t1) < Len(t2) THEN Len(t1) ELSE Len(t2)) :
     /\ SamePrefix(t1, t2, i - 1)
     /\ \/ t1[i].k # t2[i].k                                   \* two kinds
        \/ t1[i].k # "lit" /\ t1[i].s # t2[i].s                \* two names

Conflict(e, S) ==
  \/ e.bad # "none"                                            \* malformed path
  \/ \E i \in DOMAIN e.tpl : e.tpl[i].k = "wild" /\ i < Len(e.tpl)   \* after wildcard
  \/ \E i, j \in DOMAIN e.tpl : i # j /\ e.tpl[i].k # "lit" /\ e.tpl[j].k # "lit"
                                   /\ e.tpl[i].s = e.tpl[j].s  \* repeated name
  \/ TplVars(e.tpl) # DOMAIN e.pty                             \* vars # params
  \/ \E n \in DOMAIN e.qty : n \in TplVars(e.tpl)              \* path and query
  \/ \E n \in DOMAIN e.qty : e.qty[n] # "s"                    \* non-scalar query
  \/ \E n \in (DOMAIN e.pty) \cap TplVars(e.tpl) :
        \/ KindOfVar(e.tpl, n) = "var" /\ e.pty[n] # "s"       \* non-scalar path
        \/ KindOfVar(e.tpl, n) = "wild" /\ e.pty[n] # "a"      \* wildcard needs array
  \/ e.vis /\ \/ TagPolicy = "atleastone" /\ e.tags = {}
              \/ TagPolicy = "exactlyone" /\ Cardinality(e.tags) # 1
              \/ ~AllowOtherTags /\ ~(e.tags \subseteq KnownTags)   \* tag policy
  \/ \E h \in S :
        \/ h.m = e.m /\ h.tpl = e.tpl /\ SharesVersion(h.r, e.r)    \* same route
        \/ PositionClash(h.tpl, e.tpl)                         \* kinds / names

\* ===========================================================================
\* Request universe and violations
\* ===========================================================================
Paths == UNION {[1..n -> SegAlpha] : n \in 0..MaxReqLen}
Reqs == {[m |-> m, p |-> p, v |-> v] : m \in ReqMethods, p \in Paths, v \in ProbeVers}

\* Shape keys attached to violations (used only to match known findings):
\* the request's path ends on a node that has handlers of its own and also a
\* wildcard child -- lookup_route then always descends into the wildcard.
ExactBesideWild(t, segs) ==
  LET w == LookWalk(t, segs, 1, Root, NoVars) IN
  w.found /\ t[w.node].ek = "wild" /\ MethodKeys(t[w.node]) # {}

ShapeOfReq(t, q) == IF ExactBesideWild(t, q.p) THEN "exact-beside-wildcard" ELSE "other"

RECURSIVE TplNode(_, _)
TplNode(tpl, i) == IF i = 0 THEN <<>> ELSE Append(TplNode(tpl, i - 1), tpl[i])
ShapeOfEp(t, e) ==
  LET node == TplNode(e.tpl, Len(e.tpl)) IN
  IF node \in DOMAIN t /\ t[node].ek = "wild" THEN "exact-beside-wildcard" ELSE "other"

ReqViolations(t, S, q) ==
  LET ss == ServedSet(S, q.m, q.p, q.v)
      got == Lookup(t, q.m, q.p, q.v)
      others == {m \in ReqMethods \cup {e.m : e \in S} : ServedSet(S, m, q.p, q.v) # {}}
      sh == ShapeOfReq(t, q)
  IN
  (IF Cardinality(ss) > 1
   THEN {[prop |-> "C02", kind |-> "ambiguous", shape |-> sh]} ELSE {})
  \cup
  (IF Cardinality(ss) = 1
   THEN LET e == CHOOSE e \in ss : TRUE IN
        IF got.k = "ok" /\ got.e = e.id /\ got.vars = Bind(e.tpl, q.p) THEN {}
        ELSE {[prop |-> "C01", kind |-> "misdispatch", shape |-> sh]}
   ELSE {})
  \cup
  (IF ss = {}
   THEN IF got.k = "ok" THEN {[prop |-> "C01", kind |-> "phantom", shape |-> sh]}
        ELSE IF others = {}
             THEN IF got.k = "404" THEN {}
                  ELSE {[prop |-> "C04", kind |-> "status", shape |-> sh]}
             ELSE IF got.k # "405"
                  THEN {[prop |-> "C04", kind |-> "status", shape |-> sh]}
                  ELSE IF got.allow = others THEN {}
                       ELSE {[prop |-> "C04", kind |-> "allow", shape |-> sh]}
   ELSE {})

EpViolations(t, S, e) ==
  IF \E q \in Reqs : LET g == Lookup(t, q.m, q.p, q.v) IN g.k = "ok" /\ g.e = e.id
  THEN {} ELSE {[prop |-> "C02", kind |-> "unreachable", shape |-> ShapeOfEp(t, e)]}

RegViolations(t, S) ==
  UNION {
    LET out == RegisterOutcome(t, e).st
        c == Conflict(e, S)
    IN IF (out = "ok") = ~c THEN {}
       ELSE {[prop |-> "C02",
              kind |-> IF out = "ok" THEN "accepted-conflict" ELSE "rejected-clean",
              shape |-> IF \E h \in S : h.m = e.m /\ h.tpl = e.tpl
                              /\ {h.r.k, e.r.k} = {"from", "fu"}
                              /\ (IF h.r.k = "fu" THEN h.r.a = h.r.b ELSE e.r.a = e.r.b)
                        THEN "from-vs-onepoint" ELSE "other"]}
    : e \in {x \in Pool : x.id \notin {y.id : y \in S}} }

DocViolations(t, S) ==
  UNION {
    LET want == {[path |-> Printed(TplNode(e.tpl, Len(e.tpl))), m |-> e.m, id |-> e.id] :
                   e \in {x \in S : x.vis /\ InRange(x.r, v)}}
    IN IF DocOps(t, v) = want THEN {}
       ELSE {[prop |-> "C06", kind |-> "ops", shape |-> "other"]}
    : v \in ProbeVers }

Violations(t, S) ==
  UNION {ReqViolations(t, S, q) : q \in Reqs}
  \cup UNION {EpViolations(t, S, e) : e \in S}
  \cup RegViolations(t, S)
  \cup DocViolations(t, S)

\* ===========================================================================
\* Behaviour
\* ===========================================================================
Init == /\ trie = (Root :> EmptyNode)
        /\ eps = {}
        /\ hist = <<>>

Register(e) ==
  /\ Len(hist) < MaxRegs
  /\ e.id \notin {x.id : x \in eps}
  /\ LET out == RegisterOutcome(trie, e) IN
     /\ out.st = "ok"
     /\ trie' = out.t
     /\ eps' = eps \cup {e}
     /\ hist' = Append(hist, e.id)

Next == \E e \in Pool : Register(e)

Spec == Init /\ [][Next]_vars

\* The property invariants (C01, C02, C04, C06 as far as the router decides
\* them): no violation other than the known, open findings.
NoUnknownViolation == \A x \in Violations(trie, eps) : x.prop \in Props => x \in KnownOpen

\* Structural invariants of the trie itself
TrieShape ==
  \A node \in DOMAIN trie :
     LET n == trie[node] IN
     /\ n.ek = "wild" => Child(node, "wild", n.vn) \in DOMAIN trie
                         /\ trie[Child(node, "wild", n.vn)].ek = "none"
     /\ n.ek = "var" => Child(node, "var", n.vn) \in DOMAIN trie
     /\ n.ek = "lit" => \A s \in n.kids : Child(node, "lit", s) \in DOMAIN trie
     /\ \A m \in MethodKeys(n) : \A i \in DOMAIN n.methods[m] : n.methods[m][i] \in eps
=============================================================================
