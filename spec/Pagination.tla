------------------------------ MODULE Pagination ------------------------------
(***************************************************************************)
(* Page tokens, page-size limits, and complete scans (properties C14, C15).*)
(* Code anchors: dropshot/src/pagination.rs ResultsPage::new,              *)
(* deserialize_whichpage, serialize_page_token / deserialize_page_token    *)
(* (MAX_TOKEN_LENGTH = 512); handler.rs RequestContext::page_limit;        *)
(* server.rs (page_max_nitems = 10000, page_default_nitems = 100).         *)
(*                                                                         *)
(* Part 1 specifies one scan of an unchanging, ordered collection 1..n by  *)
(* following next-page tokens.  Part 2 specifies, by class of input, what  *)
(* the framework does with a page token and a limit parameter.             *)
(***************************************************************************)
EXTENDS PaginationCore, FiniteSets, TLC

CONSTANTS MaxN,       \* largest collection (model checking)
          LimitParams \* client limit parameters explored; 0 = absent

ScanInit ==
  /\ n \in 0..MaxN
  /\ lim \in LimitParams
  /\ pos = 0
  /\ pages = <<>>
  /\ open = TRUE

ScanSpec == ScanInit /\ [][ScanNext]_svars /\ WF_svars(ScanNext)


\* ---- C15 -------------------------------------------------------------------
RECURSIVE Concat(_)
Concat(ps) == IF ps = <<>> THEN <<>>
              ELSE (IF Head(ps).count = 0 THEN <<>>
                    ELSE [i \in 1..Head(ps).count |-> Head(ps).first + i - 1]) \o Concat(Tail(ps))

\* every page within the limit; token exactly when non-empty
PageBounds ==
  \A i \in DOMAIN pages : /\ pages[i].count <= EffLimit(lim)
                          /\ pages[i].token = (pages[i].count > 0)
\* what has been returned so far is 1..pos, in order, each item once
InOrderOnce == Concat(pages) = [i \in 1..pos |-> i]
\* when the scan has ended, everything was visited
Complete == ~open => pos = n
\* the scan ends (variant: n - pos, then the final empty page)
ScanTerminates == <>(~open)
ScanLength == ~open => Len(pages) = (n + EffLimit(lim) - 1) \div EffLimit(lim) + 1

(***************************************************************************)
(* Part 2: tokens and limits by class (C14)                                *)
(***************************************************************************)
TokenClasses == {"none", "issued", "valid_other", "too_long", "bad_base64", "bad_json",
                 "wrong_shape", "wrong_version"}
LimitClasses == {"absent", "zero", "negative", "non_numeric", "in_range", "at_max", "over_max"}
OtherClasses == {"absent", "valid", "malformed"}    \* the scan parameters beside the token

LimitOk(lc) == lc \in {"absent", "in_range", "at_max", "over_max"}
TokenOk(tc) == tc \in {"none", "issued", "valid_other"}

\* Outcome of a request by class:
\*   "reject"                      -> a 400-level response, no handler
\*   [k |-> "first", ...]          -> first page of a scan with the given scan parameters
\*   [k |-> "next", ...]           -> the page selected by the token alone
Outcome(tc, lc, oc) ==
  IF ~LimitOk(lc) THEN [k |-> "reject"]
  ELSE IF ~TokenOk(tc) THEN [k |-> "reject"]
  ELSE IF tc = "none"
       THEN IF oc = "malformed" THEN [k |-> "reject"] ELSE [k |-> "first", limit |-> lc]
       ELSE [k |-> "next", limit |-> lc]       \* a token alone determines the page

\* effective limit by class, given a concrete in-range value v
EffLimitClass(lc, v) ==
  CASE lc = "absent" -> DefItems
    [] lc = "in_range" -> v
    [] lc = "at_max" -> MaxItems
    [] lc = "over_max" -> MaxItems

\* token issue: defined iff the encoded token fits the bound
TokenBound == 512
Issue(encodedLen) == IF encodedLen <= TokenBound THEN "token" ELSE "error"
\* symmetry of the bound: whatever is issued is short enough to be accepted
IssuedIsAcceptable == \A len \in 0..(TokenBound + 8) : Issue(len) = "token" => len <= TokenBound
=============================================================================
