------------------------- MODULE VersionsUnbounded -------------------------
(***************************************************************************)
(* The definitions of Versions.tla restated over all integers, for the     *)
(* unbounded proof in proofs/VersionsProof.tla.  MC_Versions checks (TLC)  *)
(* that on the grid these definitions coincide with those of Versions.tla, *)
(* so the theorem proved here is about the same operators.                 *)
(***************************************************************************)
EXTENDS Integers

Kinds == {"all", "from", "until", "fu"}

\* a range: kind and two integer end-points (unused ones are ignored)
IsRange(r) == /\ r.k \in Kinds
              /\ r.a \in Int /\ r.b \in Int
              /\ r.k = "fu" => r.a <= r.b        \* from_until refuses a > b

InR(r, v) ==
  CASE r.k = "all"   -> TRUE
    [] r.k = "from"  -> v >= r.a
    [] r.k = "until" -> v < r.b
    [] r.k = "fu"    -> IF r.a = r.b THEN v = r.a ELSE r.a <= v /\ v < r.b

\* ApiEndpointVersions::matches
M(r, v) ==
  CASE r.k = "all"   -> TRUE
    [] r.k = "from"  -> v >= r.a
    [] r.k = "fu"    -> v >= r.a /\ (v < r.b \/ (v = r.b /\ r.a = r.b))
    [] r.k = "until" -> v < r.b

Max(x, y) == IF x >= y THEN x ELSE y

\* ApiEndpointVersions::overlaps_with, arm by arm
Ov(r1, r2) ==
  CASE r1.k = "all" -> TRUE
    [] r2.k = "all" -> TRUE
    [] r1.k = "from" /\ r2.k = "from" -> TRUE
    [] r1.k = "until" /\ r2.k = "until" -> TRUE
    [] r1.k = "from" /\ r2.k = "until" -> M(r2, r1.a)
    [] r1.k = "until" /\ r2.k = "from" -> M(r1, r2.a)
    [] r1.k = "from" /\ r2.k = "fu" -> M(r2, Max(r1.a, r2.a))
    [] r1.k = "fu" /\ r2.k = "from" -> M(r1, Max(r2.a, r1.a))
    [] r1.k = "until" /\ r2.k = "fu" -> M(r1, r2.a)
    [] r1.k = "fu" /\ r2.k = "until" -> M(r2, r1.a)
    [] r1.k = "fu" /\ r2.k = "fu" -> M(r1, r2.a) \/ M(r2, r1.a)

Shared(r1, r2) == \E v \in Int : InR(r1, v) /\ InR(r2, v)

=============================================================================
