------------------------------ MODULE PathNorm ------------------------------
(***************************************************************************)
(* Normalisation of a request path before routing (property C03).          *)
(* Code anchor: dropshot/src/router.rs input_path_to_segments and the      *)
(* first lines of lookup_route.                                            *)
(*                                                                         *)
(* A raw path is a sequence of *tokens*; each token is a short piece of    *)
(* the request target.  The alphabet contains every spelling that matters: *)
(* an ordinary character, a dot, a slash, percent-encoded dots in both hex *)
(* cases, percent-encoded slashes, an encoded percent sign (double         *)
(* encoding), encoded ASCII, encoded multi-byte UTF-8, a byte sequence     *)
(* that is not UTF-8, and a malformed escape.                              *)
(*                                                                         *)
(* Norm is the *meaning* required by the property (split at literal        *)
(* slashes, drop empty pieces, decode every piece exactly once, refuse     *)
(* dot-segments in any spelling and non-UTF-8) -- it is not a transcript   *)
(* of the code; the replay compares the code with it.                      *)
(***************************************************************************)
EXTENDS Naturals, Sequences, FiniteSets, TLC

CONSTANTS Tokens,   \* the token alphabet (subset of DOMAIN Decoded)
          MaxLen    \* longest raw path, in tokens

\* What each token decodes to: a sequence of abstract characters, or
\* <<"INVALID">> when the bytes are not UTF-8.
Decoded ==
  [ a      |-> <<"a">>,          \* an unreserved character
    dot    |-> <<".">>,          \* literal '.'
    slash  |-> <<"/">>,          \* literal '/', the only separator
    p2e    |-> <<".">>,          \* %2e
    p2E    |-> <<".">>,          \* %2E
    p2f    |-> <<"/">>,          \* %2f  (a slash *character* inside a segment)
    p2F    |-> <<"/">>,          \* %2F
    p25    |-> <<"%">>,          \* %25
    two_e  |-> <<"2", "e">>,     \* the two characters "2e" (with p25: %252e)
    p41    |-> <<"A">>,          \* %41
    utf8   |-> <<"é">>,          \* %c3%a9
    bad    |-> <<"INVALID">>,    \* %ff
    pzz    |-> <<"%", "z", "z">> \* %zz: not an escape, kept as is
  ]

VARIABLE raw
vars == <<raw>>

RawPaths == UNION {[1..n -> Tokens] : n \in 0..MaxLen}

\* ---- splitting ---------------------------------------------------------------
RECURSIVE Pieces(_, _, _)
\* Pieces(s, i, cur): split s[i..] at "slash" tokens; cur is the piece being built
Pieces(s, i, cur) ==
  IF i > Len(s) THEN <<cur>>
  ELSE IF s[i] = "slash" THEN <<cur>> \o Pieces(s, i + 1, <<>>)
  ELSE Pieces(s, i + 1, Append(cur, s[i]))

NonEmptyPieces(s) == SelectSeq(Pieces(s, 1, <<>>), LAMBDA p : p # <<>>)

\* ---- decoding (once) -----------------------------------------------------------
RECURSIVE DecodePiece(_)
DecodePiece(p) == IF p = <<>> THEN <<>> ELSE Decoded[Head(p)] \o DecodePiece(Tail(p))

IsInvalid(chars) == \E i \in DOMAIN chars : chars[i] = "INVALID"
IsDotSegment(chars) == chars = <<".">> \/ chars = <<".", ".">>

Norm(s) ==
  LET ps == NonEmptyPieces(s)
      ds == [i \in DOMAIN ps |-> DecodePiece(ps[i])]
  IN IF \E i \in DOMAIN ds : IsInvalid(ds[i]) \/ IsDotSegment(ds[i])
     THEN [ok |-> FALSE, segs |-> <<>>]
     ELSE [ok |-> TRUE, segs |-> ds]

\* ---- design theorems, checked for every raw path -------------------------------
RECURSIVE Squeeze(_)
\* collapse runs of slashes
Squeeze(s) ==
  IF Len(s) < 2 THEN s
  ELSE IF s[1] = "slash" /\ s[2] = "slash" THEN Squeeze(Tail(s))
  ELSE <<s[1]>> \o Squeeze(Tail(s))

StripTrailing(s) == IF s # <<>> /\ s[Len(s)] = "slash" THEN SubSeq(s, 1, Len(s) - 1) ELSE s

SlashInsensitive ==
  /\ Norm(raw) = Norm(Squeeze(raw))
  /\ Norm(raw) = Norm(Append(raw, "slash"))
  /\ Norm(raw) = Norm(<<"slash">> \o raw)
  /\ Norm(raw) = Norm(StripTrailing(raw))

\* an encoded slash never creates or crosses a segment boundary
SegmentCount == Norm(raw).ok => Len(Norm(raw).segs) = Len(NonEmptyPieces(raw))

NoUnsafeSegment ==
  LET n == Norm(raw) IN
  n.ok => \A i \in DOMAIN n.segs : n.segs[i] # <<>> /\ ~IsDotSegment(n.segs[i])

\* %252e is the three characters "%2e", never a dot
DecodedOnce ==
  Norm(<<"p25", "two_e">>) = [ok |-> TRUE, segs |-> << <<"%", "2", "e">> >>]

Init == raw \in RawPaths
Next == UNCHANGED raw
Spec == Init /\ [][Next]_vars
=============================================================================
