------------------------------ MODULE Versions ------------------------------
(***************************************************************************)
(* Version ranges of endpoints (dropshot/src/api_description.rs            *)
(* ApiEndpointVersions) and the header-based version policy                *)
(* (dropshot/src/versioning.rs ClientSpecifiesVersionInHeader).            *)
(*                                                                         *)
(* Versions are modelled as naturals > 0 under their usual order; 0 stands *)
(* for "the request carries no version" (an unversioned server).  Range    *)
(* end-points live on the even points of a grid and probes on all points;  *)
(* see GridLemma in DESIGN.md for why that decides overlap over the dense   *)
(* semver order.                                                           *)
(*                                                                         *)
(* Two things are specified side by side:                                  *)
(*   - InRange / Shared : the *meaning* of a range (the property, C05);    *)
(*   - MatchesCode / OverlapsCode : a transcription of `matches` and of    *)
(*     the ten arms of `overlaps_with` as the code has them.               *)
(* The invariants of MC_Versions say the second equals the first.          *)
(***************************************************************************)
EXTENDS Naturals, FiniteSets

RAll == [k |-> "all"]
RFrom(a) == [k |-> "from", a |-> a]
RUntil(b) == [k |-> "until", b |-> b]
RFromUntil(a, b) == [k |-> "fu", a |-> a, b |-> b]

\* All ranges with end-points in E (from_until requires a <= b: the
\* constructor refuses the others, api_description.rs from_until).
Ranges(E) ==
  {RAll} \cup {RFrom(a) : a \in E} \cup {RUntil(b) : b \in E}
         \cup {RFromUntil(p[1], p[2]) : p \in {q \in E \X E : q[1] <= q[2]}}

\* ---- meaning (property C05) ------------------------------------------------
InRange(r, v) ==
  IF v = 0 THEN TRUE
  ELSE CASE r.k = "all"   -> TRUE
         [] r.k = "from"  -> v >= r.a
         [] r.k = "until" -> v < r.b
         [] r.k = "fu"    -> IF r.a = r.b THEN v = r.a ELSE r.a <= v /\ v < r.b

Shared(r1, r2, Grid) == \E v \in Grid : InRange(r1, v) /\ InRange(r2, v)

\* ---- transcription of the code ---------------------------------------------
\* ApiEndpointVersions::matches (api_description.rs)
MatchesCode(r, v) ==
  IF v = 0 THEN TRUE
  ELSE CASE r.k = "all"   -> TRUE
         [] r.k = "from"  -> v >= r.a
         [] r.k = "fu"    -> v >= r.a /\ (v < r.b \/ (v = r.b /\ r.a = r.b))
         [] r.k = "until" -> v < r.b

Max(a, b) == IF a >= b THEN a ELSE b

\* ApiEndpointVersions::overlaps_with (api_description.rs), arm by arm.
OverlapsCode(r1, r2) ==
  CASE r1.k = "all" -> TRUE
    [] r2.k = "all" -> TRUE
    [] r1.k = "from" /\ r2.k = "from" -> TRUE
    [] r1.k = "until" /\ r2.k = "until" -> TRUE
    [] r1.k = "from" /\ r2.k = "until" -> MatchesCode(r2, r1.a)
    [] r1.k = "until" /\ r2.k = "from" -> MatchesCode(r1, r2.a)
    [] r1.k = "from" /\ r2.k = "fu" -> MatchesCode(r2, Max(r1.a, r2.a))
    [] r1.k = "fu" /\ r2.k = "from" -> MatchesCode(r1, Max(r2.a, r1.a))
    [] r1.k = "until" /\ r2.k = "fu" -> MatchesCode(r1, r2.a)
    [] r1.k = "fu" /\ r2.k = "until" -> MatchesCode(r2, r1.a)
    [] r1.k = "fu" /\ r2.k = "fu" -> MatchesCode(r1, r2.a) \/ MatchesCode(r2, r1.a)

\* ---- header policy (versioning.rs) -----------------------------------------
\* Classes of the version header's value.  `v` is the parsed version for the
\* two parsable classes.
HeaderClasses == {"missing", "nonascii", "unparsable", "ok", "toonew"}

\* Outcome of ClientSpecifiesVersionInHeader::request_extract_version with
\* maximum supported version `max`: either route at exactly v, or a 400-level
\* error with no handler run.
HeaderOutcome(class, v, max) ==
  CASE class = "missing"    -> [k |-> "reject"]
    [] class = "nonascii"   -> [k |-> "reject"]
    [] class = "unparsable" -> [k |-> "reject"]
    [] class = "ok"         -> IF v <= max THEN [k |-> "route", v |-> v]
                                           ELSE [k |-> "reject"]
    [] class = "toonew"     -> [k |-> "reject"]

\* --- version policies (server.rs build check, versioning.rs request_version) ---
\* "unversioned": VersionPolicy::Unversioned -- no version is determined for a
\*   request and routing ignores ranges; such a server is only *built* when
\*   every registered range is `all` (BuildError::UnversionedServerHasVersionedRoutes).
\* "header":  VersionPolicy::Dynamic(ClientSpecifiesVersionInHeader).
\* "default": VersionPolicy::Dynamic(an application policy that supplies the
\*   version `dflt` when the header is absent and otherwise behaves like
\*   "header") -- the documented use of the DynamicVersionPolicy trait.
Policies == {"unversioned", "header", "default"}
BuildAccepted(policy, ranges) == policy # "unversioned" \/ \A r \in ranges : r.k = "all"
\* k = "route" with v = 0 means "routed with no version constraint".
PolicyOutcome(policy, class, v, max, dflt) ==
  CASE policy = "unversioned" -> [k |-> "route", v |-> 0]
    [] policy = "default" /\ class = "missing" -> [k |-> "route", v |-> dflt]
    [] OTHER -> HeaderOutcome(class, v, max)
\* membership as routing sees it: no version constraint matches every range
RoutedInRange(r, v) == IF v = 0 THEN TRUE ELSE InRange(r, v)
=============================================================================
