------------------------------ MODULE Declaration ------------------------------
(***************************************************************************)
(* What an endpoint or channel declaration says, and what must come out of *)
(* it (property C19).  Code anchors: dropshot_endpoint/src/metadata.rs     *)
(* (attribute arguments -> ApiEndpoint builder calls, VersionRange::parse),*)
(* doc.rs ExtractedDoc::from_attrs, endpoint.rs, api_trait.rs, channel.rs; *)
(* dropshot/src/api_description.rs ApiEndpoint::new_for_types.             *)
(*                                                                         *)
(* A declaration is a record of attribute arguments plus a doc comment     *)
(* (a sequence of line kinds).  Expected(decl) is the endpoint that must   *)
(* be registered, served and documented; it does not depend on the         *)
(* declaration *style* (free function, API trait with an implementation,   *)
(* API trait stub), which is exactly the StyleFree requirement.  The doc   *)
(* comment transformation is a transcription of from_attrs.                *)
(***************************************************************************)
EXTENDS Naturals, Sequences, FiniteSets, TLC

\* ---- doc comments ---------------------------------------------------------------
\* line kinds of `///` comments:
\*   "blank"  an empty line            "word"  ordinary text
\*   "dash"   text ending in '-' (a hyphenated word continued on the next line)
\*   "star"   text starting with "* "  (kept as is in a `///` comment)
LineKinds == {"blank", "word", "dash", "star"}

\* The text of line i of kind k (distinct per line, so that loss is detectable)
TextOf(k, i) ==
  CASE k = "blank" -> ""
    [] k = "word" -> "w" \o ToString(i)
    [] k = "dash" -> "d" \o ToString(i) \o "-"
    [] k = "star" -> "* s" \o ToString(i)

Texts(doc) == [i \in DOMAIN doc |-> TextOf(doc[i], i)]

RECURSIVE SkipBlank(_)
SkipBlank(ls) == IF ls # <<>> /\ Head(ls) = "" THEN SkipBlank(Tail(ls)) ELSE ls

EndsWith(s, suffix) ==
  LET n == Len(s)  m == Len(suffix) IN n >= m /\ SubSeq(s, n - m + 1, n) = suffix

RECURSIVE TrimEnd(_)
TrimEnd(s) == IF s # "" /\ (EndsWith(s, "\n") \/ EndsWith(s, " ")) THEN TrimEnd(SubSeq(s, 1, Len(s) - 1)) ELSE s

RECURSIVE Fold(_, _)
\* the description fold of from_attrs
Fold(acc, ls) ==
  IF ls = <<>> THEN acc
  ELSE LET c == Head(ls) IN
       Fold(IF EndsWith(acc, "-") \/ EndsWith(acc, "\n") \/ acc = "" THEN acc \o c
            ELSE IF c = "" THEN acc \o "\n\n"
            ELSE acc \o " " \o c,
            Tail(ls))

Extract(doc) ==
  LET ls == SkipBlank(Texts(doc)) IN
  IF ls = <<>> THEN [summary |-> "", description |-> "", hasSummary |-> FALSE, hasDescription |-> FALSE]
  ELSE LET rest == SkipBlank(Tail(ls)) IN
       IF rest = <<>> THEN [summary |-> Head(ls), description |-> "", hasSummary |-> TRUE, hasDescription |-> FALSE]
       ELSE [summary |-> Head(ls), description |-> TrimEnd(Fold(Head(rest), Tail(rest))),
             hasSummary |-> TRUE, hasDescription |-> TRUE]

\* C19: no doc-comment text is lost between summary and description: every
\* non-blank line's text occurs, in order, in summary followed by description
RECURSIVE OccursInOrder(_, _)
IsSubstringAt(s, t, p) == p + Len(t) - 1 <= Len(s) /\ SubSeq(s, p, p + Len(t) - 1) = t
FirstOcc(s, t, from) ==
  IF \E p \in from..Len(s) : IsSubstringAt(s, t, p)
  THEN CHOOSE p \in from..Len(s) : IsSubstringAt(s, t, p) /\ \A q \in from..(p - 1) : ~IsSubstringAt(s, t, q)
  ELSE 0
OccursInOrder(whole, ts) ==
  IF ts = <<>> THEN TRUE
  ELSE LET p == FirstOcc(whole, Head(ts), 1) IN
       p # 0 /\ OccursInOrder(SubSeq(whole, p + Len(Head(ts)), Len(whole)), Tail(ts))

NoTextLost(doc) ==
  LET e == Extract(doc)
      nonblank == SelectSeq(Texts(doc), LAMBDA t : t # "")
  IN OccursInOrder(e.summary \o "\n" \o e.description, nonblank)

\* ---- attribute arguments -----------------------------------------------------------
Methods == {"GET", "PUT", "POST", "DELETE"}
VersionKinds == {"absent", "from", "until", "from_until", "all"}   \* absent / "a".. / .."b" / "a".."b" / ..

\* the version range that must be registered (Versions.tla notation)
ExpectedRange(vk) ==
  CASE vk \in {"absent", "all"} -> [k |-> "all"]
    [] vk = "from" -> [k |-> "from", a |-> 2]
    [] vk = "until" -> [k |-> "until", b |-> 4]
    [] vk = "from_until" -> [k |-> "fu", a |-> 2, b |-> 4]

Expected(d) ==
  [ method |-> d.method,
    range |-> ExpectedRange(d.versions),
    tags |-> d.tags,
    opid |-> IF d.opid = "none" THEN "fn-name" ELSE d.opid,     \* default: the function's name
    ctype |-> d.ctype,
    maxbytes |-> d.maxbytes,
    deprecated |-> d.deprecated,
    visible |-> ~d.unpublished,
    doc |-> Extract(d.doc) ]
=============================================================================
