-------------------------------- MODULE Hostile --------------------------------
(***************************************************************************)
(* Hostile or broken traffic (property C18).                               *)
(* Code anchors: dropshot/src/server.rs accept loop (per-connection tasks, *)
(* tolerant accept), http_request_handle_wrap (every request-derived       *)
(* failure becomes an HttpError response).                                 *)
(*                                                                         *)
(* A fault is one connection carrying one of the fault kinds below.  The   *)
(* server may answer it or just close the connection; whatever it answers  *)
(* must be a syntactically valid HTTP response, with a 4xx/5xx status      *)
(* whenever the request was malformed.  After every fault the server still *)
(* answers a well-formed request on a fresh connection (Health), also      *)
(* while other faulty connections are still open.                          *)
(***************************************************************************)
EXTENDS Naturals, Sequences, FiniteSets, TLC

FaultKinds == {"garbage",          \* random bytes
               "truncated",        \* a valid request cut at some byte offset, then EOF
               "truncated_reset",  \* ... then RST instead of FIN
               "mutated",          \* a valid request with a few bytes changed
               "oversize_head",    \* an enormous request line / header block
               "bad_header_value", \* control or non-UTF-8 bytes in a header value
               "bad_chunking",     \* malformed chunked framing
               "length_mismatch",  \* content-length larger than the body, then EOF
               "handler_panic",    \* a well-formed request whose handler panics
               "slow_open",        \* connection left open with a partial request while others are served
               "reset_burst",      \* many connections opened and reset at once, some before the server accepts them
               "fd_exhaustion"}    \* connections held open until the process has no file descriptors left, then released

\* is the request on this connection malformed HTTP (as opposed to
\* well-formed but incomplete, or well-formed with a failing handler)?
\* (an "oversized" head is malformed only beyond the server's own limit, which
\* the property does not fix: it may be served or refused, but not crash)
Malformed(k) == k \in {"garbage", "bad_header_value", "bad_chunking"}

VARIABLES alive,      \* the server process serves requests
          open,       \* faulty connections currently open (by id)
          answered    \* ids of faults that have been answered

vars == <<alive, open, answered>>

Init == alive = TRUE /\ open = {} /\ answered = {}

Fault(id, kind) ==
  /\ alive
  /\ id \notin open
  /\ kind \in FaultKinds
  /\ open' = open \cup {id}
  /\ UNCHANGED <<alive, answered>>

\* the server answers the faulty connection
FaultAnswered(id, kind, wellformed, status) ==
  /\ id \in open
  /\ wellformed                                  \* C18: anything it does answer is valid HTTP
  /\ Malformed(kind) => status >= 400 /\ status <= 599
  /\ kind = "mutated" => status >= 200 /\ status <= 599
  /\ answered' = answered \cup {id}
  /\ UNCHANGED <<alive, open>>

\* ... or closes it without answering (always acceptable for broken input)
FaultClosed(id) ==
  /\ id \in open
  /\ open' = open \ {id}
  /\ UNCHANGED <<alive, answered>>

\* a well-formed request on a fresh connection is answered
Health(ok, status) ==
  /\ alive
  /\ ok /\ status = 200
  /\ UNCHANGED vars

Next ==
  \/ \E id \in 1..3, k \in FaultKinds : Fault(id, k)
  \/ \E id \in 1..3, k \in FaultKinds, s \in {200, 400, 500} : FaultAnswered(id, k, TRUE, s)
  \/ \E id \in 1..3 : FaultClosed(id)
  \/ Health(TRUE, 200)
Spec == Init /\ [][Next]_vars

\* C18: nothing takes the server down
ServerNeverDies == alive
=============================================================================
