------------------------------ MODULE WsHandshake ------------------------------
(***************************************************************************)
(* The WebSocket opening handshake of a channel endpoint (property C20).   *)
(* Code anchor: dropshot/src/websocket.rs WebsocketUpgrade::from_request,  *)
(* derive_accept_key, WebsocketUpgrade::handle.                            *)
(*                                                                         *)
(* A header field that is a list (Connection, Upgrade) is modelled as a    *)
(* sequence of header *lines*, each a sequence of elements; RFC 9110       *)
(* section 5.3: several lines are equivalent to one comma-separated list,  *)
(* elements are separated by commas with optional white space (SP / HTAB), *)
(* tokens compare case-insensitively.  HasToken is that meaning; how the   *)
(* list was spelled (separator, line split, case) must not matter.         *)
(***************************************************************************)
EXTENDS Naturals, Sequences, FiniteSets, TLC

\* elements: [t |-> lower-case token, sp |-> spelling variant]
Lower(e) == e.t

Elements(lines) == UNION {{lines[i][j] : j \in DOMAIN lines[i]} : i \in DOMAIN lines}
HasToken(lines, tok) == \E e \in Elements(lines) : Lower(e) = tok

\* a request's handshake-relevant headers
\*   conn, upg : sequences of lines (<<>> = header absent)
\*   ver : "absent" | "13" | "other"
\*   key : "absent" | "present" (an ordinary base64 nonce) | "odd" (a field
\*         value with interior SP / HTAB / comma: still *a key*, and the
\*         digest is over the whole field value -- RFC 6455 4.2.2 item 5.4
\*         concatenates the header value as sent, it is not a list)
\*   ver : "other" includes values that merely *start* with 13 ("13, 8")
Good(req) ==
  /\ HasToken(req.conn, "upgrade")
  /\ HasToken(req.upg, "websocket")
  /\ req.ver = "13"
  /\ req.key \in {"present", "odd"}

\* D is the RFC 6455 digest (uninterpreted here; the harness computes it with
\* its own SHA-1 / base64)
Outcome(req) ==
  IF Good(req)
  THEN [status |-> 101, accept |-> "D(key)", upgraded |-> TRUE]
  ELSE [status |-> "4xx", accept |-> "none", upgraded |-> FALSE]
=============================================================================
