----------------------------- MODULE Lifecycle -----------------------------
(***************************************************************************)
(* Connections, requests, handler tasks and shutdown of a dropshot server. *)
(*                                                                         *)
(* Code anchors (dropshot/src/server.rs): HttpServerStarter::start (accept *)
(* loop, graceful.watch, close signal, graceful.shutdown, waitgroup wait), *)
(* http_request_handle_wrap (request id, disconnect scopeguard, response), *)
(* http_request_handle (version, route, task mode: inline await vs spawned *)
(* task + oneshot + waitgroup worker, panic propagation, id stamping),     *)
(* HttpServer::close / CloseHandle::drop / wait_for_shutdown;              *)
(* handler.rs handle_request (extractors, then the handler).               *)
(*                                                                         *)
(* One action per step that another task or the client can observe.        *)
(* [F] = recorded by a framework hook, [D] = recorded by the driver or the  *)
(* harness handler.  The same actions are driven by TLC exhaustively       *)
(* (MC_Lifecycle) and by recorded traces of the real server               *)
(* (TraceLifecycle).                                                       *)
(***************************************************************************)
EXTENDS Naturals, Sequences, FiniteSets, TLC

CONSTANTS
  Conn,     \* connections
  Req,      \* requests (client-side identity)
  Mode,     \* "cancel" | "detached"   (HandlerTaskMode)
  Ids,      \* framework request ids that may be generated
  MaxSteps, \* bound on the handler steps counted per request (model checking)
  SendKinds,\* ways a client may send a request: subset of {"full", "head", "body"}
  Resets    \* BOOLEAN: clients may reset single requests (HTTP/2 streams)

VARIABLES
  cst,      \* [Conn -> [client, server]]
  rq,       \* [Req -> request record]
  srv,      \* shutdown progress
  wg,       \* outstanding waitgroup workers of spawned handler tasks
  usedIds   \* request ids generated so far

vars == <<cst, rq, srv, wg, usedIds>>

NoConn == "noconn"

InitReq == [conn |-> NoConn, sent |-> "no", reset |-> FALSE, stage |-> "none", ext |-> "no", h |-> "none",
            task |-> "none", id |-> "", status |-> 0, hstatus |-> 0, recv |-> "no", steps |-> 0]

Init ==
  /\ cst = [c \in Conn |-> [client |-> "idle", server |-> "none"]]
  /\ rq = [r \in Req |-> InitReq]
  /\ srv = [closeReq |-> FALSE, acceptExit |-> FALSE, gracefulDone |-> FALSE,
            wgDone |-> FALSE, closeReturned |-> FALSE]
  /\ wg = 0
  /\ usedIds = {}

InFlight(r) == rq[r].stage \in {"started", "versioned", "routed"}
\* the client of request r has gone away: it closed the connection, or
\* (HTTP/2) reset this request's stream
ClientGone(r) == rq[r].conn # NoConn /\ (cst[rq[r].conn].client = "gone" \/ rq[r].reset)

\* ------------------------------------------------------------------ clients
ClientConnect(c) ==                                                    \* [D] connect attempt
  /\ cst[c].client = "idle"
  /\ cst' = [cst EXCEPT ![c].client = "open"]
  /\ UNCHANGED <<rq, srv, wg, usedIds>>

\* The attempt fails: only possible once the accept loop has exited (the
\* listener is dropped when the serving task ends).
ConnectRefused(c) ==                                                   \* [D] connect_failed
  /\ cst[c].client = "open"
  /\ cst[c].server = "none"
  /\ srv.acceptExit
  /\ cst' = [cst EXCEPT ![c].client = "refused"]
  /\ UNCHANGED <<rq, srv, wg, usedIds>>

\* kind: "full" | "head" (incomplete head) | "body" (complete head, body incomplete)
ClientSend(r, c, kind) ==                                              \* [D]
  /\ cst[c].client = "open"
  /\ rq[r].sent = "no"
  /\ rq' = [rq EXCEPT ![r].conn = c, ![r].sent = kind]
  /\ UNCHANGED <<cst, srv, wg, usedIds>>

ClientFinish(r) ==                                                     \* [D]
  /\ rq[r].sent \in {"head", "body"}
  /\ cst[rq[r].conn].client = "open"
  /\ rq' = [rq EXCEPT ![r].sent = "full"]
  /\ UNCHANGED <<cst, srv, wg, usedIds>>

ClientReset(r) ==                                                      \* [D] HTTP/2 stream reset
  /\ rq[r].sent = "full"
  /\ ~rq[r].reset
  /\ cst[rq[r].conn].client = "open"
  /\ rq[r].recv = "no"
  /\ rq' = [rq EXCEPT ![r].reset = TRUE]
  /\ UNCHANGED <<cst, srv, wg, usedIds>>

ClientDisconnect(c) ==                                                 \* [D]
  /\ cst[c].client = "open"
  /\ cst' = [cst EXCEPT ![c].client = "gone"]
  /\ UNCHANGED <<rq, srv, wg, usedIds>>

ClientRecv(r, status, complete, idhdr) ==                              \* [D]
  /\ rq[r].stage = "responded"
  /\ rq[r].recv = "no"
  /\ status = rq[r].status
  /\ idhdr = rq[r].id                           \* C13: x-request-id is the request's id
  /\ complete                                   \* C17: the whole response arrives
  /\ rq' = [rq EXCEPT ![r].recv = "complete"]
  /\ UNCHANGED <<cst, srv, wg, usedIds>>

\* The client sees its connection end without a response.  Legitimate only
\* when (a) a handler on that connection panicked (HTTP/1: the connection
\* dies with it, and pipelined followers are lost -- DESIGN section 8 rule 5),
\* or (b) the request's handler had not started when shutdown was requested.
ClientNoResponse(r) ==                                                 \* [D]
  /\ rq[r].conn # NoConn
  /\ rq[r].recv = "no"
  /\ \/ \E r2 \in Req : rq[r2].conn = rq[r].conn /\ rq[r2].h = "panicked"
     \* shutdown had been requested and the request's handler never started (C17 promises a response to
     \* requests whose handler had started; one that raced with the start of shutdown may be dropped by
     \* the transport even though the framework had already refused it: observed with HTTP/2 over TLS)
     \/ srv.closeReq /\ rq[r].h \in {"none", "skipped"}
     \/ ClientGone(r)                           \* the client itself gave up
  /\ rq' = [rq EXCEPT ![r].recv = "none"]
  /\ UNCHANGED <<cst, srv, wg, usedIds>>

\* The driver gave up waiting for a request that the server never picked up:
\* legitimate only if shutdown had been requested before the request was
\* started (DESIGN section 8 rule 6).
NeverServed(r) == srv.closeReq /\ rq[r].h \in {"none", "skipped"}

\* ------------------------------------------------------------------- server
Accept(c) ==                                                           \* [F] accept
  /\ cst[c].client \in {"open", "gone"}
  /\ cst[c].server = "none"
  /\ ~srv.acceptExit
  /\ cst' = [cst EXCEPT ![c].server = "accepted"]
  /\ UNCHANGED <<rq, srv, wg, usedIds>>

ReqStart(r, id) ==                                                     \* [F] req_start
  /\ rq[r].sent \in {"body", "full"}
  /\ rq[r].stage = "none"
  /\ cst[rq[r].conn].server = "accepted"
  \* Once graceful shutdown has finished every connection has ended, so only
  \* a request of a departed client can still be started (HTTP/2: the
  \* per-stream task may be polled for the first time after its connection
  \* has ended); and none once the waitgroup has drained, because every
  \* request future holds the server state and with it the primary worker.
  /\ srv.gracefulDone => ClientGone(r)
  /\ ~srv.wgDone
  /\ id \in Ids \ usedIds                       \* C13: a fresh id per request
  /\ rq' = [rq EXCEPT ![r].stage = "started", ![r].id = id]
  /\ usedIds' = usedIds \cup {id}
  /\ UNCHANGED <<cst, srv, wg>>

\* A request future whose connection has already ended (possible only for a
\* departed client, see GracefulDone) may still make progress until it is
\* dropped: with HTTP/2 it is a task of its own, and it is only cancelled at
\* a point where it is pending.  (Observed: route_ok .. resp_ready after
\* graceful_done for a stream whose client had reset it and disconnected.)
VersionOk(r) ==                                                        \* [F] version_ok
  /\ rq[r].stage = "started"
  /\ rq' = [rq EXCEPT ![r].stage = "versioned"]
  /\ UNCHANGED <<cst, srv, wg, usedIds>>

RouteOk(r) ==                                                          \* [F] route_ok
  /\ rq[r].stage = "versioned"
  /\ rq' = [rq EXCEPT ![r].stage = "routed"]
  /\ UNCHANGED <<cst, srv, wg, usedIds>>

Spawn(r) ==                                                            \* [F] spawn
  /\ Mode = "detached"
  \* No detached task is spawned once the waitgroup has drained: the request
  \* future that spawns it holds the server state (Arc<DropshotState>) and
  \* with it the primary waitgroup worker, so wait() cannot have returned.
  /\ ~srv.wgDone
  /\ rq[r].stage = "routed"
  /\ rq[r].task = "none"
  /\ rq' = [rq EXCEPT ![r].task = "spawned"]
  /\ wg' = wg + 1
  /\ UNCHANGED <<cst, srv, usedIds>>

\* The extractors ran successfully (handler.rs handle_request).  In detached
\* mode this happens inside the spawned task, which is not tied to the request
\* future: it may happen although the request future has been dropped.
ExtractOk(r) ==                                                        \* [F] extract_ok
  /\ rq[r].ext = "no"
  /\ \/ rq[r].stage = "routed" /\ (Mode = "detached" => rq[r].task = "spawned")
     \/ Mode = "detached" /\ rq[r].stage = "cancelled" /\ rq[r].task = "spawned"
  /\ rq' = [rq EXCEPT ![r].ext = "ok"]
  /\ UNCHANGED <<cst, srv, wg, usedIds>>

\* The handler may be invoked once the extractors have succeeded; when it is
\* awaited inline (cancel mode) only while the request future is alive.
HandlerMayRun(r) ==
  /\ rq[r].ext = "ok"
  /\ Mode = "cancel" => rq[r].stage = "routed"

HandlerEnter(r) ==                                                     \* [D] handler_enter
  /\ HandlerMayRun(r)
  /\ rq[r].h = "none"
  /\ rq' = [rq EXCEPT ![r].h = "running"]
  /\ UNCHANGED <<cst, srv, wg, usedIds>>

\* In cancel mode a handler makes no progress once its request future has
\* been dropped (C16 "is cancelled and makes no further progress").
Alive(r) == Mode = "cancel" => rq[r].stage # "cancelled"

HandlerStep(r) ==                                                      \* [D] handler_step
  /\ rq[r].h = "running"
  /\ Alive(r)
  /\ rq[r].steps < MaxSteps
  /\ rq' = [rq EXCEPT ![r].steps = @ + 1]
  /\ UNCHANGED <<cst, srv, wg, usedIds>>

HandlerComplete(r, status) ==                                          \* [D] handler_complete
  /\ rq[r].h = "running"
  /\ Alive(r)
  /\ rq' = [rq EXCEPT ![r].h = "completed", ![r].hstatus = status]
  /\ UNCHANGED <<cst, srv, wg, usedIds>>

\* A panic unwinds the handler; in detached mode the task's waitgroup worker
\* is dropped by the unwinding (no task_exit event is logged).
HandlerPanic(r) ==                                                     \* [D] handler_panic
  /\ rq[r].h = "running"
  /\ rq' = [rq EXCEPT ![r].h = "panicked",
                      ![r].task = IF Mode = "detached" THEN "exited" ELSE @]
  /\ wg' = IF Mode = "detached" THEN wg - 1 ELSE wg
  /\ UNCHANGED <<cst, srv, usedIds>>

\* The handler future is dropped before completing.  Only possible when the
\* handler is awaited inline (cancel mode) and its client has gone away.
HandlerDropped(r) ==                                                   \* [D] handler_dropped
  /\ Mode = "cancel"
  /\ rq[r].h = "running"
  /\ ClientGone(r)
  /\ rq[r].sent # "no"
  /\ rq' = [rq EXCEPT ![r].h = "dropped"]
  /\ UNCHANGED <<cst, srv, wg, usedIds>>

TaskExit(r) ==                                                         \* [F] task_exit
  /\ Mode = "detached"
  /\ rq[r].task = "spawned"
  /\ \/ rq[r].h = "completed"                 \* the handler returned
     \/ rq[r].h = "none" /\ rq[r].ext = "no"    \* the extractors failed
  /\ rq' = [rq EXCEPT ![r].task = "exited",
                      ![r].h = IF @ = "none" THEN "skipped" ELSE @]
  /\ wg' = wg - 1
  /\ UNCHANGED <<cst, srv, usedIds>>

\* The request future is dropped by hyper because the client went away
\* (the scopeguard in http_request_handle_wrap fires).
ReqCancelled(r) ==                                                     \* [F] req_cancelled
  /\ InFlight(r)
  \* the client went away -- or the request future is being unwound by a
  \* handler panic (the same scopeguard fires)
  /\ ClientGone(r) \/ rq[r].h = "panicked"
  \* cancel mode: the handler future lives inside the request future and is
  \* dropped first, within the same synchronous drop
  /\ Mode = "cancel" => rq[r].h # "running"
  /\ rq' = [rq EXCEPT ![r].stage = "cancelled"]
  /\ UNCHANGED <<cst, srv, wg, usedIds>>

\* The response (success or error) is handed to hyper.
\*   - failure before the handler (version, route, extract): a 4xx    (C10)
\*   - otherwise the handler has returned and its status is used
RespReady(r, status, iserr) ==                                         \* [F] resp_ready
  /\ InFlight(r)
  /\ rq[r].h \in {"none", "skipped", "completed"}
  /\ rq[r].h = "completed" => status = rq[r].hstatus
  /\ rq[r].h \in {"none", "skipped"} => rq[r].ext = "no" /\ iserr /\ status >= 400 /\ status <= 499
  /\ rq' = [rq EXCEPT ![r].stage = "responded", ![r].status = status]
  /\ UNCHANGED <<cst, srv, wg, usedIds>>

\* ----------------------------------------------------------------- shutdown
CloseRequested ==                                                      \* [F] close_requested
  /\ ~srv.closeReq
  /\ srv' = [srv EXCEPT !.closeReq = TRUE]
  /\ UNCHANGED <<cst, rq, wg, usedIds>>

AcceptExit ==                                                          \* [F] accept_exit
  /\ srv.closeReq /\ ~srv.acceptExit
  /\ srv' = [srv EXCEPT !.acceptExit = TRUE]
  /\ UNCHANGED <<cst, rq, wg, usedIds>>

\* hyper's graceful shutdown returns when every watched connection has
\* finished.  A connection does not finish while a request of a client that is
\* still there is unanswered.  Requests of clients that have gone away may
\* still be winding down: with HTTP/2 the per-stream futures run in tasks of
\* their own and are dropped shortly after the connection itself has ended.
GracefulDone ==                                                        \* [F] graceful_done
  /\ srv.acceptExit /\ ~srv.gracefulDone
  /\ \A r \in Req : InFlight(r) => ClientGone(r)
  /\ srv' = [srv EXCEPT !.gracefulDone = TRUE]
  /\ UNCHANGED <<cst, rq, wg, usedIds>>

WaitgroupDone ==                                                       \* [F] waitgroup_done
  /\ srv.gracefulDone /\ ~srv.wgDone
  /\ wg = 0
  /\ srv' = [srv EXCEPT !.wgDone = TRUE]
  /\ UNCHANGED <<cst, rq, wg, usedIds>>

CloseReturned ==                                                       \* [D] close_returned / waiter_released
  /\ srv.wgDone
  /\ srv' = [srv EXCEPT !.closeReturned = TRUE]
  /\ UNCHANGED <<cst, rq, wg, usedIds>>

\* ---------------------------------------------------------------------------
Next ==
  \/ \E c \in Conn : ClientConnect(c) \/ ConnectRefused(c) \/ ClientDisconnect(c) \/ Accept(c)
  \/ \E r \in Req, c \in Conn, k \in SendKinds : ClientSend(r, c, k)
  \/ \E r \in Req : ClientFinish(r) \/ ClientNoResponse(r) \/ (Resets /\ ClientReset(r))
  \/ \E r \in Req, id \in Ids : ReqStart(r, id)
  \/ \E r \in Req : VersionOk(r) \/ RouteOk(r) \/ Spawn(r) \/ ExtractOk(r)
                    \/ HandlerEnter(r) \/ HandlerStep(r) \/ HandlerPanic(r)
                    \/ HandlerDropped(r) \/ TaskExit(r) \/ ReqCancelled(r)
  \/ \E r \in Req, s \in {200, 500} : HandlerComplete(r, s)
  \/ \E r \in Req, s \in {200, 400, 500} : RespReady(r, s, s >= 400)
  \/ \E r \in Req : ClientRecv(r, rq[r].status, TRUE, rq[r].id)
  \/ CloseRequested \/ AcceptExit \/ GracefulDone \/ WaitgroupDone \/ CloseReturned

\* Fairness: the server makes progress; handlers that run eventually return;
\* a client with a half-sent request eventually completes it or goes away
\* (DESIGN section 8 rule 10).
Fairness ==
  /\ \A r \in Req : /\ WF_vars(HandlerDropped(r)) /\ WF_vars(ReqCancelled(r))
                     /\ WF_vars(TaskExit(r)) /\ WF_vars(VersionOk(r)) /\ WF_vars(RouteOk(r))
                     /\ WF_vars(Spawn(r)) /\ WF_vars(ExtractOk(r)) /\ WF_vars(HandlerEnter(r))
                     /\ WF_vars(\E s \in {200, 500} : HandlerComplete(r, s))
                     /\ WF_vars(\E s \in {200, 400, 500} : RespReady(r, s, s >= 400))
                     /\ WF_vars(ClientFinish(r) \/ (rq[r].conn \in Conn /\ ClientDisconnect(rq[r].conn)))
  /\ WF_vars(AcceptExit) /\ WF_vars(GracefulDone) /\ WF_vars(WaitgroupDone)

Spec == Init /\ [][Next]_vars
FairSpec == Spec /\ Fairness

\* =========================================================================
\* Properties
\* =========================================================================
\* C16: a detached handler is never cancelled
DetachedNeverCancelled == Mode = "detached" => \A r \in Req : rq[r].h # "dropped"

\* C16: a handler is only ever cancelled for a client that has gone away
CancelOnlyWhenGone == \A r \in Req : rq[r].h = "dropped" => ClientGone(r)

\* C16: a started handler ends exactly one way (action property)
EndsOnceStep ==
  \A r \in Req : rq[r].h \in {"completed", "panicked", "dropped", "skipped"} => rq'[r].h = rq[r].h
EndsOnce == [][EndsOnceStep]_vars

\* C16: no progress after cancellation (steps frozen once dropped)
NoProgressStep == \A r \in Req : rq[r].h = "dropped" => rq'[r].steps = rq[r].steps
NoProgressAfterCancel == [][NoProgressStep]_vars

\* C10 / C16: a handler never runs for a request that was refused
NoHandlerBeforeReject ==
  \A r \in Req : rq[r].h \in {"running", "completed", "panicked", "dropped"} => rq[r].ext = "ok"

\* C17: shutdown does not finish while a handler runs or a started request
\* is unanswered
ShutdownWaits ==
  srv.wgDone => \A r \in Req : /\ rq[r].task # "spawned"            \* detached handlers have finished
                               /\ InFlight(r) => ClientGone(r)       \* clients that stayed were answered
                               /\ rq[r].h = "running" => Mode = "cancel" /\ ClientGone(r)
CloseAfterDone == srv.closeReturned => srv.wgDone /\ srv.gracefulDone /\ srv.acceptExit

\* C17: a started request whose client stays connected is never dropped
StayedGetsResponse ==
  \A r \in Req : rq[r].stage = "cancelled" => ClientGone(r) \/ rq[r].h = "panicked"

\* C17: nothing is accepted after the accept loop has exited
NoAcceptAfterExit ==
  [][srv.acceptExit => \A c \in Conn : cst'[c].server = cst[c].server]_vars

\* C13: ids are unique
IdsUnique ==
  \A r1, r2 \in Req : (r1 # r2 /\ rq[r1].id # "") => rq[r1].id # rq[r2].id

\* bookkeeping
WgCounts == wg = Cardinality({r \in Req : rq[r].task = "spawned"})

\* Liveness (C16, cancel mode): a handler whose client sent the whole request
\* and then went away does not keep running.
CancelOnDisconnect ==
  \A r \in Req :
     (Mode = "cancel" /\ rq[r].h = "running" /\ rq[r].sent = "full" /\ ClientGone(r))
        ~> (rq[r].h # "running")

\* Liveness (C17): if shutdown is requested and handlers finish, shutdown finishes
ShutdownCompletes == srv.closeReq ~> srv.wgDone
=============================================================================
