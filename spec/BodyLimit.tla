------------------------------ MODULE BodyLimit ------------------------------
(***************************************************************************)
(* The request-body cap (property C11).                                    *)
(* Code anchors: dropshot/src/extractor/body.rs StreamingBody::into_stream *)
(* and into_bytes_mut; handler.rs RequestContext::request_body_max_bytes;   *)
(* router.rs lookup_route (the per-endpoint override travels with the      *)
(* lookup result); http_util.rs http_dump_body.                            *)
(*                                                                         *)
(* A body arrives as a sequence of frames: data frames of some length and  *)
(* trailer frames.  The reader keeps a running total; a data frame that    *)
(* would take the total above the cap is not delivered: the rest of the    *)
(* body is drained and the request is refused.                             *)
(***************************************************************************)
EXTENDS Naturals, Sequences, FiniteSets, TLC

CONSTANTS MaxCap,      \* caps 0..MaxCap
          MaxTotal,    \* largest total body length
          MaxFrames    \* longest frame sequence

VARIABLES cap,         \* the effective limit for this request
          pending,     \* frames not yet read: <<[k |-> "data", n |-> len] | [k |-> "trailers"]>>
          bytesRead,   \* running total of delivered data
          delivered,   \* sequence of delivered chunk lengths
          drained,     \* number of frames consumed by the drain after an overflow
          phase        \* "reading" | "rejected" | "done"

vars == <<cap, pending, bytesRead, delivered, drained, phase>>

Data(n) == [k |-> "data", n |-> n]
Trailers == [k |-> "trailers"]

RECURSIVE SumData(_)
SumData(fs) == IF fs = <<>> THEN 0
               ELSE (IF Head(fs).k = "data" THEN Head(fs).n ELSE 0) + SumData(Tail(fs))
RECURSIVE Sum(_)
Sum(s) == IF s = <<>> THEN 0 ELSE Head(s) + Sum(Tail(s))

FrameAlphabet == {Data(n) : n \in 0..MaxTotal} \cup {Trailers}
Bodies == {fs \in UNION {[1..k -> FrameAlphabet] : k \in 0..MaxFrames} : SumData(fs) <= MaxTotal}

\* effective limit: the endpoint's own override, else the server default
\* (NoOverride stands for "the endpoint does not override the limit")
NoOverride == 0 - 1
EffCap(override, default) == IF override = NoOverride THEN default ELSE override

Init ==
  /\ cap \in 0..MaxCap
  /\ pending \in Bodies
  /\ bytesRead = 0
  /\ delivered = <<>>
  /\ drained = 0
  /\ phase = "reading"

\* Core steps on the reader's own state, parametrised by the length of the
\* arriving data frame (the trace specification binds n to the logged length).
FrameN(n) ==
  /\ phase = "reading"
  /\ bytesRead + n <= cap
  /\ delivered' = Append(delivered, n)
  /\ bytesRead' = bytesRead + n
  /\ UNCHANGED <<cap, phase>>

OverflowN(n) ==
  /\ phase = "reading"
  /\ bytesRead + n > cap
  /\ phase' = "rejected"
  /\ UNCHANGED <<cap, bytesRead, delivered>>

\* a data frame that fits is delivered to the consumer
Frame ==
  /\ pending # <<>> /\ Head(pending).k = "data"
  /\ FrameN(Head(pending).n)
  /\ pending' = Tail(pending)
  /\ UNCHANGED drained

\* trailer frames are skipped
SkipTrailers ==
  /\ phase = "reading" /\ pending # <<>> /\ Head(pending).k = "trailers"
  /\ pending' = Tail(pending)
  /\ UNCHANGED <<cap, bytesRead, delivered, drained, phase>>

\* a data frame that does not fit: drain the rest, refuse
Overflow ==
  /\ pending # <<>> /\ Head(pending).k = "data"
  /\ OverflowN(Head(pending).n)
  /\ drained' = Len(pending) - 1
  /\ pending' = <<>>

End ==
  /\ phase = "reading" /\ pending = <<>>
  /\ phase' = "done"
  /\ UNCHANGED <<cap, pending, bytesRead, delivered, drained>>

Next == Frame \/ SkipTrailers \/ Overflow \/ End
Spec == Init /\ [][Next]_vars /\ WF_vars(Next)

\* ---- C11 ------------------------------------------------------------------
NeverOverCap == Sum(delivered) <= cap /\ bytesRead = Sum(delivered)
Terminates == <>(phase \in {"done", "rejected"})
=============================================================================
