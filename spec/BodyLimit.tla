------------------------------ MODULE BodyLimit ------------------------------
(***************************************************************************)
(* The request-body cap (property C11).                                    *)
(* Code anchors: dropshot/src/extractor/body.rs StreamingBody::into_stream *)
(* and into_bytes_mut; handler.rs RequestContext::request_body_max_bytes;   *)
(* router.rs lookup_route (the per-endpoint override travels with the      *)
(* lookup result); http_util.rs http_dump_body.                            *)
(*                                                                         *)
(* A body arrives as a sequence of frames: data frames of some length and  *)
(* trailer frames.  The reader keeps a running total; a data frame that    *)
(* would take the total above the cap is not delivered: the rest of the    *)
(* body is drained and the request is refused.                             *)
(***************************************************************************)
EXTENDS BodyLimitCore, FiniteSets, TLC

CONSTANTS MaxCap,      \* caps 0..MaxCap
          MaxTotal,    \* largest total body length
          MaxFrames    \* longest frame sequence

RECURSIVE SumData(_)
SumData(fs) == IF fs = <<>> THEN 0
               ELSE (IF Head(fs).k = "data" THEN Head(fs).n ELSE 0) + SumData(Tail(fs))
RECURSIVE Sum(_)
Sum(s) == IF s = <<>> THEN 0 ELSE Head(s) + Sum(Tail(s))

FrameAlphabet == {Data(n) : n \in 0..MaxTotal} \cup {Trailers}
Bodies == {fs \in UNION {[1..k -> FrameAlphabet] : k \in 0..MaxFrames} : SumData(fs) <= MaxTotal}

Init ==
  /\ cap \in 0..MaxCap
  /\ pending \in Bodies
  /\ bytesRead = 0
  /\ delivered = <<>>
  /\ drained = 0
  /\ phase = "reading"

Spec == Init /\ [][Next]_vars /\ WF_vars(Next)

\* ---- C11 ------------------------------------------------------------------
NeverOverCap == Sum(delivered) <= cap /\ bytesRead = Sum(delivered)
Terminates == <>(phase \in {"done", "rejected"})
=============================================================================
