------------------------------ MODULE JsonSchema ------------------------------
(***************************************************************************)
(* A JSON Schema / OpenAPI 3.0.3 instance validator as recursive TLA+      *)
(* operators (used by SchemaConv.tla for C08 and by DocTruth.tla for C07). *)
(*                                                                         *)
(* JSON values arrive as a tagged AST (TLC's JSON reader has no null and   *)
(* no non-integers, and TLC equality is typed):                            *)
(*   [t |-> "null"]            [t |-> "bool", v |-> TRUE]                  *)
(*   [t |-> "int", v |-> 7]    [t |-> "num", s |-> "1.5", i |-> FALSE]      *)
(*   (non-integer, or integral -- i = TRUE -- but beyond 30 bits: carried  *)
(*   as text, never compared by magnitude)                                 *)
(*   [t |-> "str", v |-> "abc"]                                            *)
(*   [t |-> "arr", v |-> <<...>>]                                          *)
(*   [t |-> "obj", k |-> <<keys>>, v |-> <<values>>]                       *)
(*                                                                         *)
(* Schemas arrive normalised to one record shape (every member always      *)
(* present; "has" flags say whether a keyword occurs), the same shape for  *)
(* the type's own JSON Schema and for the schema published in the OpenAPI  *)
(* document; both are evaluated under OpenAPI 3.0.3 semantics (dropshot    *)
(* runs schemars with the openapi3 settings, so null is expressed with     *)
(* `nullable`).  `pattern` and `format` are not evaluated.                 *)
(***************************************************************************)
EXTENDS Naturals, Integers, Sequences, FiniteSets, TLC

\* ---- equality of tagged values (tag first: TLC equality is typed) -------------
RECURSIVE Eq(_, _)
Eq(a, b) ==
  IF a.t # b.t THEN FALSE
  ELSE CASE a.t = "null" -> TRUE
         [] a.t = "bool" -> a.v = b.v
         [] a.t = "int" -> a.v = b.v
         [] a.t = "num" -> a.s = b.s
         [] a.t = "str" -> a.v = b.v
         [] a.t = "arr" -> Len(a.v) = Len(b.v) /\ \A i \in DOMAIN a.v : Eq(a.v[i], b.v[i])
         [] a.t = "obj" -> /\ Len(a.k) = Len(b.k)
                           /\ \A i \in DOMAIN a.k :
                                \E j \in DOMAIN b.k : a.k[i] = b.k[j] /\ Eq(a.v[i], b.v[j])

\* JSON Schema type of a value
IsType(ty, v) ==
  CASE ty = "null" -> v.t = "null"
    [] ty = "boolean" -> v.t = "bool"
    [] ty = "integer" -> v.t = "int" \/ (v.t = "num" /\ v.i)   \* integral but beyond the evaluator's range
    [] ty = "number" -> v.t \in {"int", "num"}
    [] ty = "string" -> v.t = "str"
    [] ty = "array" -> v.t = "arr"
    [] ty = "object" -> v.t = "obj"
    [] OTHER -> FALSE

Lookup(defs, name) ==
  LET I == {i \in DOMAIN defs : defs[i].name = name} IN
  IF I = {} THEN [missing |-> TRUE] ELSE [missing |-> FALSE, s |-> defs[CHOOSE i \in I : TRUE].s]

HasKey(v, key) == \E i \in DOMAIN v.k : v.k[i] = key
ValOf(v, key) == v.v[CHOOSE i \in DOMAIN v.k : v.k[i] = key]
PropSchema(s, key) ==
  LET I == {i \in DOMAIN s.props : s.props[i].k = key} IN
  IF I = {} THEN [has |-> FALSE] ELSE [has |-> TRUE, s |-> s.props[CHOOSE i \in I : TRUE].s]

Count(seq, P(_)) == Cardinality({i \in DOMAIN seq : P(seq[i])})

\* numeric bound: only evaluated for integers on both sides
BoundOk(b, v, isMin) ==
  IF ~b.has THEN TRUE
  ELSE IF v.t # "int" \/ b.big THEN TRUE          \* not decidable here: preserved verbatim instead
  ELSE IF isMin THEN (IF b.excl THEN v.v > b.v ELSE v.v >= b.v)
       ELSE (IF b.excl THEN v.v < b.v ELSE v.v <= b.v)

\* ---- the validator ---------------------------------------------------------------
RECURSIVE Accepts(_, _, _)
Accepts(defs, s, v) ==
  IF s.any THEN TRUE
  ELSE IF s.ref # ""
       THEN LET d == Lookup(defs, s.ref) IN IF d.missing THEN FALSE ELSE Accepts(defs, d.s, v)
  \* OpenAPI 3.0: `nullable` admits null -- but other constraints keep their meaning (3.0.3): an `enum`
  \* that does not list null still excludes it
  ELSE IF v.t = "null" /\ s.nullable /\ (s.hasEnum => \E i \in DOMAIN s.enum : Eq(s.enum[i], v)) THEN TRUE
  ELSE
    /\ s.type # "" => IsType(s.type, v)
    /\ s.hasEnum => \E i \in DOMAIN s.enum : Eq(s.enum[i], v)
    \* numbers
    /\ v.t \in {"int", "num"} =>
         /\ BoundOk(s.min, v, TRUE) /\ BoundOk(s.max, v, FALSE)
         /\ (s.multipleOf.has /\ v.t = "int" /\ s.multipleOf.v > 0) => v.v % s.multipleOf.v = 0
    \* strings
    /\ v.t = "str" =>
         /\ s.minLen.has => Len(v.v) >= s.minLen.v
         /\ s.maxLen.has => Len(v.v) <= s.maxLen.v
    \* arrays
    /\ v.t = "arr" =>
         /\ s.minItems.has => Len(v.v) >= s.minItems.v
         /\ s.maxItems.has => Len(v.v) <= s.maxItems.v
         /\ s.unique => \A i, j \in DOMAIN v.v : i # j => ~Eq(v.v[i], v.v[j])
         /\ s.items.has => \A i \in DOMAIN v.v : Accepts(defs, s.items.s, v.v[i])
    \* objects
    /\ v.t = "obj" =>
         /\ \A i \in DOMAIN s.required : HasKey(v, s.required[i])
         /\ s.minProps.has => Len(v.k) >= s.minProps.v
         /\ s.maxProps.has => Len(v.k) <= s.maxProps.v
         /\ \A i \in DOMAIN v.k :
              LET ps == PropSchema(s, v.k[i]) IN
              IF ps.has THEN Accepts(defs, ps.s, v.v[i])
              ELSE CASE s.addl.mode = "false" -> FALSE
                     [] s.addl.mode = "schema" -> Accepts(defs, s.addl.s, v.v[i])
                     [] OTHER -> TRUE
    \* combinators
    /\ \A i \in DOMAIN s.allOf : Accepts(defs, s.allOf[i], v)
    /\ s.anyOf # <<>> => \E i \in DOMAIN s.anyOf : Accepts(defs, s.anyOf[i], v)
    /\ s.oneOf # <<>> => Cardinality({i \in DOMAIN s.oneOf : Accepts(defs, s.oneOf[i], v)}) = 1
    /\ s.not.has => ~Accepts(defs, s.not.s, v)

\* ---- annotations and non-evaluated keywords, compared structurally -------------------
\* (title is exempt at the root of a named component: the document names it)
RECURSIVE Preserved(_, _, _)
Preserved(a, b, root) ==
  IF a.any \/ a.ref # "" THEN a.any = b.any /\ a.ref = b.ref
  ELSE
  /\ (root \/ a.title = b.title)
  /\ a.description = b.description
  /\ a.format = b.format
  /\ a.pattern = b.pattern
  /\ a.default = b.default
  /\ a.deprecated = b.deprecated
  /\ a.nullable = b.nullable
  /\ a.example = b.example
  /\ a.ext = b.ext
  /\ a.unmodelled = <<>>                  \* a keyword the evaluator does not know must not occur
  \* bounds that cannot be evaluated must be carried over verbatim
  /\ a.min = b.min /\ a.max = b.max /\ a.multipleOf = b.multipleOf
  \* structure
  /\ a.items.has = b.items.has /\ (a.items.has => Preserved(a.items.s, b.items.s, FALSE))
  /\ Len(a.props) = Len(b.props)
  /\ \A i \in DOMAIN a.props :
       \E j \in DOMAIN b.props : a.props[i].k = b.props[j].k /\ Preserved(a.props[i].s, b.props[j].s, FALSE)
  /\ a.addl.mode = b.addl.mode /\ (a.addl.mode = "schema" => Preserved(a.addl.s, b.addl.s, FALSE))
  /\ Len(a.allOf) = Len(b.allOf) /\ \A i \in DOMAIN a.allOf : Preserved(a.allOf[i], b.allOf[i], FALSE)
  /\ Len(a.anyOf) = Len(b.anyOf) /\ \A i \in DOMAIN a.anyOf : Preserved(a.anyOf[i], b.anyOf[i], FALSE)
  /\ Len(a.oneOf) = Len(b.oneOf) /\ \A i \in DOMAIN a.oneOf : Preserved(a.oneOf[i], b.oneOf[i], FALSE)
  /\ a.not.has = b.not.has /\ (a.not.has => Preserved(a.not.s, b.not.s, FALSE))
=============================================================================
