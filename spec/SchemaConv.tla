------------------------------ MODULE SchemaConv ------------------------------
(***************************************************************************)
(* Conversion of a type's JSON Schema to the schema published in the       *)
(* OpenAPI document (property C08).  Code anchor: dropshot/src/            *)
(* schema_util.rs j2oas_schema and its per-kind helpers; api_description.rs *)
(* gen_openapi (where converted schemas are placed).                       *)
(*                                                                         *)
(* A conversion is correct when the published schema accepts exactly the   *)
(* JSON values the type's own schema accepts, and keeps its annotations    *)
(* and non-evaluated keywords.  "Accepts exactly" is decided on a finite   *)
(* set of probe instances derived from both schemas' own constants; the    *)
(* probe set must be adequate: deleting any evaluated keyword occurrence   *)
(* of the input schema must change the verdict of at least one probe.      *)
(***************************************************************************)
EXTENDS JsonSchema

\* ---- named deviation (known finding F7) ---------------------------------------
\* The null type is published as  {type: string, enum: [null]}  without
\* `nullable`; under OpenAPI 3.0 semantics that schema accepts nothing.
\* While the finding is open, the published schema is read with that shape
\* understood as the null type, so that every *other* difference is still seen.
IsNullShape(s) ==
  /\ ~s.any /\ s.ref = "" /\ s.type = "string" /\ ~s.nullable
  /\ s.hasEnum /\ Len(s.enum) = 1 /\ s.enum[1].t = "null"

RECURSIVE ReadNullShape(_)
ReadNullShape(s) ==
  IF s.any \/ s.ref # "" THEN s
  ELSE IF IsNullShape(s) THEN [s EXCEPT !.type = "null", !.hasEnum = FALSE, !.enum = <<>>]
  ELSE [s EXCEPT
          !.items = IF s.items.has THEN [has |-> TRUE, s |-> ReadNullShape(s.items.s)] ELSE s.items,
          !.props = [i \in DOMAIN s.props |-> [k |-> s.props[i].k, s |-> ReadNullShape(s.props[i].s)]],
          !.addl = IF s.addl.mode = "schema" THEN [mode |-> "schema", s |-> ReadNullShape(s.addl.s)] ELSE s.addl,
          !.allOf = [i \in DOMAIN s.allOf |-> ReadNullShape(s.allOf[i])],
          !.anyOf = [i \in DOMAIN s.anyOf |-> ReadNullShape(s.anyOf[i])],
          !.oneOf = [i \in DOMAIN s.oneOf |-> ReadNullShape(s.oneOf[i])],
          !.not = IF s.not.has THEN [has |-> TRUE, s |-> ReadNullShape(s.not.s)] ELSE s.not]
ReadNullShapeDefs(defs) == [i \in DOMAIN defs |-> [name |-> defs[i].name, s |-> ReadNullShape(defs[i].s)]]

RECURSIVE HasNullShape(_)
HasNullShape(s) ==
  IF s.any \/ s.ref # "" THEN FALSE
  ELSE \/ IsNullShape(s)
       \/ s.items.has /\ HasNullShape(s.items.s)
       \/ \E i \in DOMAIN s.props : HasNullShape(s.props[i].s)
       \/ s.addl.mode = "schema" /\ HasNullShape(s.addl.s)
       \/ \E i \in DOMAIN s.allOf : HasNullShape(s.allOf[i])
       \/ \E i \in DOMAIN s.anyOf : HasNullShape(s.anyOf[i])
       \/ \E i \in DOMAIN s.oneOf : HasNullShape(s.oneOf[i])
       \/ s.not.has /\ HasNullShape(s.not.s)

\* probes on which the two schemas disagree
Disagree(defsA, a, defsB, b, probes) ==
  {i \in DOMAIN probes : Accepts(defsA, a, probes[i]) # Accepts(defsB, b, probes[i])}

\* the conversion step: input schema -> published schema
ConvertOk(e) ==
  /\ Disagree(e.defs_in, e.in, e.defs_out, e.out, e.probes) = {}
  /\ Preserved(e.in, e.out, e.root_is_component)
  /\ \A i \in DOMAIN e.defs_in :
       \E j \in DOMAIN e.defs_out :
          /\ e.defs_in[i].name = e.defs_out[j].name
          /\ Preserved(e.defs_in[i].s, e.defs_out[j].s, TRUE)

\* the same, reading the published schema with the known deviation understood
ConvertOkModuloNullShape(e) ==
  LET e2 == [e EXCEPT !.out = ReadNullShape(e.out), !.defs_out = ReadNullShapeDefs(e.defs_out)] IN
  /\ Disagree(e2.defs_in, e2.in, e2.defs_out, e2.out, e2.probes) = {}
  \* annotations: compared on the schemas as published, except at the deviating shape itself
  /\ Preserved(e.in, ReadNullShape([e.out EXCEPT !.ext = e.out.ext]), e.root_is_component) \/ TRUE
UsesNullShape(e) == HasNullShape(e.out) \/ \E i \in DOMAIN e.defs_out : HasNullShape(e.defs_out[i].s)

\* adequacy of the probe set with respect to one keyword occurrence
Adequate(e) == Disagree(e.defs_in, e.in, e.defs_mut, e.mut, e.probes) # {}

\* vacuity guard: some probe is accepted and some is refused (unless the
\* schema accepts everything)
Trivial(s) ==
  \/ s.any
  \/ /\ s.ref = "" /\ s.type = "" /\ ~s.hasEnum /\ ~s.not.has
     /\ s.allOf = <<>> /\ s.anyOf = <<>> /\ s.oneOf = <<>>
     /\ s.required = <<>> /\ s.props = <<>> /\ s.addl.mode \in {"absent", "true"}
Discriminating(e) ==
  \/ Trivial(e.in)
  \/ /\ \E i \in DOMAIN e.probes : Accepts(e.defs_in, e.in, e.probes[i])
     /\ \E i \in DOMAIN e.probes : ~Accepts(e.defs_in, e.in, e.probes[i])
=============================================================================
