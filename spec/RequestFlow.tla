----------------------------- MODULE RequestFlow -----------------------------
(***************************************************************************)
(* One request through the extraction pipeline (properties C09, C10).      *)
(* Code anchors: dropshot/src/handler.rs HttpRouteHandler::handle_request  *)
(* (extractors first, any failure short-circuits, then the handler);       *)
(* extractor/path.rs, query.rs, body.rs; http_util.rs                      *)
(* http_extract_path_params; from_map.rs (string -> scalar parsing).       *)
(*                                                                         *)
(* A request has three components (path value, query string, body); each   *)
(* is described by a *case*: the position, the declared type of what is     *)
(* being decoded, and the class of the value the client sends.  Valid says *)
(* whether a value of that class is a legal encoding of the declared type  *)
(* in that position.  The rule of the pipeline: the handler is invoked --   *)
(* with exactly the values sent -- iff every component is valid; otherwise  *)
(* the client gets a 4xx and no handler runs.                              *)
(***************************************************************************)
EXTENDS Naturals, Sequences, FiniteSets, TLC

\* ---- value classes per declared type -----------------------------------------
\* "message_like": text that reads like a fragment of a deserialiser's error message ("missing field",
\* "unknown variant `x`", "invalid type: ...").  A legal string; for every other type just one more
\* value that does not parse -- the refusal must not depend on what the rejected text says (the
\* extractors classify some failures by the wording of an error message that echoes the input).
\* "long_unicode": some sixty ASCII characters followed by multi-byte characters (so that any byte-offset cut
\* made while reporting the value falls inside a character); a legal string, unparsable as anything else.
StringClasses == {"plain", "reserved", "unicode", "long", "slashes", "plus_space", "empty", "invalid_utf8",
                  "message_like", "long_unicode"}
IntClasses == {"zero", "min", "max", "over", "under", "alpha", "float", "plus_sign",
               "leading_space", "empty", "hex", "leading_zero", "message_like", "long_unicode"}
BoolClasses == {"true", "false", "upper", "one", "yes", "empty", "message_like", "long_unicode"}
EnumClasses == {"member", "other_member", "non_member", "wrong_case", "empty", "message_like", "long_unicode"}
OptClasses == {"absent", "present"}

IntTypes == {"u8", "u32", "i64"}
ScalarTypes == {"string", "bool", "enum"} \cup IntTypes

ClassesOf(ty) ==
  CASE ty = "string" -> StringClasses
    [] ty \in IntTypes -> IntClasses
    [] ty = "bool" -> BoolClasses
    [] ty = "enum" -> EnumClasses

\* a textual scalar (path segment, query value, form value) of type ty
ValidText(ty, c) ==
  CASE ty = "string" -> c # "invalid_utf8"     \* bytes that are not UTF-8 are not a string
    [] ty \in IntTypes -> c \in {"zero", "min", "max", "plus_sign", "leading_zero"}
                           \* Rust's FromStr accepts an explicit '+' and leading zeros
    [] ty = "bool" -> c \in {"true", "false"}
    [] ty = "enum" -> c \in {"member", "other_member"}

\* ---- cases per position ----------------------------------------------------------
\* path: a single-segment variable of a scalar type (an empty segment cannot be sent)
PathCases == {[pos |-> "path", ty |-> ty, c |-> c] : ty \in ScalarTypes, c \in StringClasses \cup IntClasses \cup BoolClasses \cup EnumClasses}
  \* filtered to the classes of the type below
PathCasesT == {x \in PathCases : x.c \in ClassesOf(x.ty) /\ x.c # "empty"}

\* wildcard: number of trailing segments
WildCases == {[pos |-> "wild", ty |-> "segments", c |-> c] : c \in {"none", "one", "many", "encoded_slash", "unicode"}}

\* query: an optional member of a scalar type; plus structural cases
QueryCasesT == {x \in {[pos |-> "query", ty |-> ty, c |-> c] : ty \in ScalarTypes,
                          c \in StringClasses \cup IntClasses \cup BoolClasses \cup EnumClasses} : x.c \in ClassesOf(x.ty)}
QueryStructCases == {[pos |-> "query", ty |-> "struct", c |-> c] :
                       c \in {"all_absent", "required_missing", "required_present", "duplicate_key",
                              "unknown_key", "key_without_value", "repeated_ampersand", "pct_encoded_key"}}

\* JSON body of a struct type
JsonCases == {[pos |-> "json", ty |-> "struct", c |-> c] :
                c \in {"ok", "ok_unicode", "ok_extremes", "ok_escapes", "ok_unknown_member", "ok_optional_absent",
                       "ok_optional_null", "ok_whitespace", "ok_no_content_type", "ok_content_type_params",
                       "ok_content_type_case",
                       "wrong_type", "over_range", "negative_unsigned", "float_for_int", "unknown_variant",
                       "missing_field", "duplicate_field", "truncated", "trailing_comma", "trailing_content",
                       "second_document", "not_json", "empty_body", "wrong_content_type", "invalid_utf8_in_string",
                       "null_for_required", "whitespace_body",
                       "unsupported_content_type", "null_body", "array_body"}}
FormCases == {[pos |-> "form", ty |-> "struct", c |-> c] :
                c \in {"ok", "ok_plus_space", "ok_pct", "ok_unicode", "wrong_type", "missing_field",
                       "duplicate_field", "json_content_type", "empty_body", "invalid_utf8"}}
RawCases == {[pos |-> "raw", ty |-> "bytes", c |-> c] : c \in {"empty", "binary", "text", "large"}}
MultipartCases == {[pos |-> "multipart", ty |-> "fields", c |-> c] :
                     c \in {"plain_boundary", "quoted_boundary", "boundary_then_param", "param_then_boundary",
                            "two_fields", "binary_field", "missing_boundary", "no_content_type"}}

Valid(x) ==
  CASE x.pos = "path" -> ValidText(x.ty, x.c)
    [] x.pos = "wild" -> TRUE
    [] x.pos = "query" /\ x.ty # "struct" -> (x.c = "empty" /\ x.ty = "string") \/ (x.c # "empty" /\ ValidText(x.ty, x.c))
    [] x.pos = "query" /\ x.ty = "struct" -> x.c \in {"all_absent", "required_present", "unknown_key", "repeated_ampersand", "pct_encoded_key"}
                                              \* NB "all_absent" is sent to an endpoint without required members
    [] x.pos = "json" -> x.c \in {"ok", "ok_unicode", "ok_extremes", "ok_escapes", "ok_unknown_member",
                                   "ok_optional_absent", "ok_optional_null", "ok_whitespace", "ok_no_content_type",
                                   "ok_content_type_params", "ok_content_type_case"}
    [] x.pos = "form" -> x.c \in {"ok", "ok_plus_space", "ok_pct", "ok_unicode"}
    [] x.pos = "raw" -> TRUE
    [] x.pos = "multipart" -> x.c \in {"plain_boundary", "quoted_boundary", "boundary_then_param",
                                        "param_then_boundary", "two_fields", "binary_field"}

AllCases == PathCasesT \cup WildCases \cup QueryCasesT \cup QueryStructCases \cup JsonCases
            \cup FormCases \cup RawCases \cup MultipartCases

\* ---- the pipeline rule ------------------------------------------------------------
\* A request is a set of component cases (one per position it uses).
Outcome(components) ==
  IF \A x \in components : Valid(x) THEN "invoke" ELSE "reject"

\* Trace-level state machine of one request (used by TraceRequestFlow):
\*   sent -> started -> [extracted -> echoed] -> answered
\* extracted / echoed are enabled only if the outcome is "invoke".
=============================================================================
