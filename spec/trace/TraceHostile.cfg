SPECIFICATION TraceSpec
CONSTRAINT Track
INVARIANT ServerNeverDies
POSTCONDITION Accepted
CHECK_DEADLOCK FALSE
