SPECIFICATION TraceSpec
CONSTRAINT Track
INVARIANT ScanInv
POSTCONDITION Accepted
CHECK_DEADLOCK FALSE
