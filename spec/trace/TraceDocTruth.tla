---------------------------- MODULE TraceDocTruth ----------------------------
EXTENDS DocTruth, Json, IOUtils, KnownFindings
Rec == ndJsonDeserialize(IOEnv.TRACE)
VARIABLES l, cur, enteredNow, defs
tvars == <<l, cur, enteredNow, defs>>
NoReq == [n |-> ""]
TraceInit == l = 1 /\ cur = NoReq /\ enteredNow = FALSE /\ defs = <<>>

Consume(e) ==
  \/ /\ e.ev = "reset" /\ defs' = e.defs /\ UNCHANGED <<cur, enteredNow>>
  \/ /\ e.ev = "doc_refs" /\ e.unresolved = <<>>      \* C06/C07: every reference resolves inside the document
     /\ UNCHANGED <<cur, enteredNow, defs>>
  \/ /\ e.ev = "doc_request" /\ cur' = e /\ enteredNow' = FALSE /\ UNCHANGED defs
  \/ /\ e.ev = "handler_doc" /\ e.n = cur.n /\ e.op = cur.op   \* the documented operation is the one that ran
     /\ enteredNow' = TRUE /\ UNCHANGED <<cur, defs>>
  \/ /\ e.ev = "doc_response" /\ e.n = cur.n
     /\ RequestOk(defs, cur @@ [expect_handler_error |-> cur.op \in {"doc_fail", "doc_custom", "doc_gadget", "doc_with_retry_header", "doc_custom_hdr", "doc_custom_fussy", "doc_plain_hdr"}],
                  e.status, enteredNow) = TRUE
     /\ ResponseOk(defs, e) = TRUE
     /\ UNCHANGED <<cur, enteredNow, defs>>
  \/ /\ e.ev \in {"accept", "req_start", "version_ok", "route_ok", "extract_ok", "handler_call", "handler_return",
                  "spawn", "task_exit", "resp_ready", "body_frame", "req_cancelled", "close_requested",
                  "accept_exit", "graceful_done", "waitgroup_done"}
     /\ UNCHANGED <<cur, enteredNow, defs>>

TraceNext == l <= Len(Rec) /\ Consume(Rec[l]) /\ l' = l + 1
TraceSpec == TraceInit /\ [][TraceNext]_tvars

ASSUME TLCSet(1, 0) /\ TLCSet(2, <<>>)
Track == IF l > TLCGet(1) THEN TLCSet(1, l) /\ TLCSet(2, [entered |-> enteredNow, cur |-> cur, defs |-> defs]) ELSE TRUE
Diag(e) ==
  LET st == TLCGet(2) IN
  IF e.ev = "doc_response"
  THEN [ev |-> e.ev, op |-> e.op, status |-> e.status, ctype |-> e.ctype, listed |-> e.listed,
        ctype_listed |-> e.ctype_listed, has_schema |-> e.has_schema, empty |-> e.empty,
        response_body_valid |-> (~e.has_schema \/ Accepts(st.defs, e.schema, e.body)), body |-> e.body,
        handler_entered |-> st.entered, request |-> [target |-> st.cur.target, omitted |-> st.cur.omitted,
                                                    has_body |-> st.cur.has_body, body |-> st.cur.body],
        request_body_valid |-> (~st.cur.has_body \/ Accepts(st.defs, st.cur.schema, st.cur.body))]
  ELSE [ev |-> e.ev]
Accepted ==
  IF TLCGet(1) = Len(Rec) + 1 THEN TRUE
  ELSE /\ PrintT(<<"REJECT", TLCGet(1)>>)
       /\ PrintT(<<"REJECT-EVENT", Diag(Rec[TLCGet(1)])>>)
       /\ PrintT(<<"REJECT-STATE", "see event">>)
       /\ FALSE
=============================================================================
