--------------------------- MODULE TraceLifecycle ---------------------------
(***************************************************************************)
(* Trace validation for Lifecycle.tla.  The trace (ndjson, one event per   *)
(* line, totally ordered by the sequence number assigned under the event   *)
(* log's lock) is consumed line by line; every line must be explained by   *)
(* the Lifecycle action it names, with the logged fields bound to the      *)
(* action's parameters.  All Lifecycle invariants are evaluated in every   *)
(* state.  Episodes (one server each) are separated by `reset` events;     *)
(* request ids must be fresh across the whole trace.                       *)
(*                                                                         *)
(* Requests and connections are identified by slots (k, c) chosen by the   *)
(* driver; framework events carry the nonce header / the remote port, and  *)
(* the trace-level variables nonceOf / portOf map them to slots.           *)
(***************************************************************************)
EXTENDS Naturals, Sequences, FiniteSets, TLC, Json, IOUtils

Rec == ndJsonDeserialize(IOEnv.TRACE)
Mode == IOEnv.MODE
Has(e, f) == f \in DOMAIN e

Req == {"r0", "r1", "r2", "r3", "r4", "r5"}
Conn == {"c0", "c1", "c2", "c3", "c4", "c5"}
Ids == {Rec[i].id : i \in {j \in DOMAIN Rec : Rec[j].ev = "req_start"}}
MaxSteps == 1000000
SendKinds == {"full", "head", "body"}
Resets == TRUE

VARIABLES cst, rq, srv, wg, usedIds,
          l,          \* next line of the trace
          nonceOf,    \* [Req -> nonce string or ""]
          portOf      \* [Conn -> port or 0]

INSTANCE Lifecycle

tvars == <<cst, rq, srv, wg, usedIds, l, nonceOf, portOf>>

ReqOfNonce(n) == CHOOSE r \in Req : nonceOf[r] = n
KnownNonce(n) == n # "" /\ \E r \in Req : nonceOf[r] = n
ReqOfId(id) == CHOOSE r \in Req : rq[r].id = id
KnownId(id) == \E r \in Req : rq[r].id = id
ConnOfPort(p) == CHOOSE c \in Conn : portOf[c] = p
KnownPort(p) == \E c \in Conn : portOf[c] = p

TraceInit ==
  /\ Init
  /\ l = 1
  /\ nonceOf = [r \in Req |-> ""]
  /\ portOf = [c \in Conn |-> 0]

Same == UNCHANGED <<cst, rq, srv, wg, usedIds>>
Maps == UNCHANGED <<nonceOf, portOf>>

\* one disjunct per event kind
Consume(e) ==
  \/ /\ e.ev = "reset"                      \* a new server: everything but the ids
     /\ cst' = [c \in Conn |-> [client |-> "idle", server |-> "none"]]
     /\ rq' = [r \in Req |-> InitReq]
     /\ srv' = [closeReq |-> FALSE, acceptExit |-> FALSE, gracefulDone |-> FALSE,
                wgDone |-> FALSE, closeReturned |-> FALSE]
     /\ wg' = 0
     /\ nonceOf' = [r \in Req |-> ""]
     /\ portOf' = [c \in Conn |-> 0]
     /\ UNCHANGED usedIds
  \/ /\ e.ev = "client_connect"
     /\ portOf[e.c] = 0
     /\ portOf' = [portOf EXCEPT ![e.c] = e.port]
     /\ ClientConnect(e.c) /\ UNCHANGED nonceOf
  \/ /\ e.ev = "accept" /\ KnownPort(e.port)
     /\ Accept(ConnOfPort(e.port)) /\ Maps
  \/ /\ e.ev = "client_send"
     /\ nonceOf[e.k] = ""
     /\ nonceOf' = [nonceOf EXCEPT ![e.k] = e.n]
     /\ ClientSend(e.k, e.c, e.kind) /\ UNCHANGED portOf
  \/ /\ e.ev = "client_finish" /\ ClientFinish(e.k) /\ Maps
  \/ /\ e.ev = "client_disconnect" /\ ClientDisconnect(e.c) /\ Maps
  \/ /\ e.ev = "client_reset" /\ ClientReset(e.k) /\ Maps
  \/ /\ e.ev = "req_start" /\ KnownNonce(e.n) /\ KnownPort(e.port)
     /\ rq[ReqOfNonce(e.n)].conn = ConnOfPort(e.port)   \* C09: the request's own peer
     /\ ReqStart(ReqOfNonce(e.n), e.id) /\ Maps
  \/ /\ e.ev = "version_ok" /\ KnownId(e.id) /\ VersionOk(ReqOfId(e.id)) /\ Maps
  \/ /\ e.ev = "route_ok" /\ KnownId(e.id) /\ RouteOk(ReqOfId(e.id)) /\ Maps
  \/ /\ e.ev = "spawn" /\ KnownId(e.id) /\ Spawn(ReqOfId(e.id)) /\ Maps
  \/ /\ e.ev = "extract_ok" /\ KnownId(e.id) /\ ExtractOk(ReqOfId(e.id)) /\ Maps
  \/ /\ e.ev = "handler_call" /\ KnownId(e.id)
     /\ HandlerMayRun(ReqOfId(e.id)) /\ rq[ReqOfId(e.id)].h = "none"
     /\ Same /\ Maps
  \/ /\ e.ev = "handler_enter" /\ KnownId(e.id) /\ KnownNonce(e.n)
     /\ ReqOfId(e.id) = ReqOfNonce(e.n)      \* C13/C09: the handler got this request's id
     /\ HandlerEnter(ReqOfId(e.id)) /\ Maps
  \/ /\ e.ev = "handler_step" /\ KnownId(e.id) /\ HandlerStep(ReqOfId(e.id)) /\ Maps
  \/ /\ e.ev = "handler_complete" /\ KnownId(e.id)
     /\ HandlerComplete(ReqOfId(e.id), e.status) /\ Maps
  \/ /\ e.ev = "handler_panic" /\ KnownId(e.id) /\ HandlerPanic(ReqOfId(e.id)) /\ Maps
  \/ /\ e.ev = "handler_dropped" /\ KnownId(e.id) /\ HandlerDropped(ReqOfId(e.id)) /\ Maps
  \/ /\ e.ev = "handler_return" /\ KnownId(e.id)
     /\ rq[ReqOfId(e.id)].h = "completed"
     /\ e.ok = (rq[ReqOfId(e.id)].hstatus < 400)
     /\ Same /\ Maps
  \/ /\ e.ev = "task_exit" /\ KnownId(e.id) /\ TaskExit(ReqOfId(e.id)) /\ Maps
  \/ /\ e.ev = "req_cancelled" /\ KnownId(e.id) /\ ReqCancelled(ReqOfId(e.id)) /\ Maps
  \/ /\ e.ev = "resp_ready" /\ KnownId(e.id)
     /\ e.idhdr = <<e.id>>                   \* C13: exactly one x-request-id, the request's
     /\ RespReady(ReqOfId(e.id), e.status, e.err) /\ Maps
  \/ /\ e.ev = "client_recv" /\ KnownNonce(e.n)
     /\ Len(e.idhdr) = 1
     /\ (e.idbody # "" => e.idbody = e.idhdr[1])   \* C13: id in an error body is the same id
     /\ ClientRecv(ReqOfNonce(e.n), e.status, e.complete, e.idhdr[1]) /\ Maps
  \/ /\ e.ev = "client_noresp" /\ KnownNonce(e.n)
     /\ ClientNoResponse(ReqOfNonce(e.n)) /\ Maps
  \/ /\ e.ev \in {"client_timeout", "await_enter_timeout"} /\ KnownNonce(e.n)
     /\ NeverServed(ReqOfNonce(e.n)) /\ Same /\ Maps
  \/ /\ e.ev = "close_requested" /\ CloseRequested /\ Maps
  \/ /\ e.ev = "accept_exit" /\ AcceptExit /\ Maps
  \/ /\ e.ev = "graceful_done" /\ GracefulDone /\ Maps
  \/ /\ e.ev = "waitgroup_done" /\ WaitgroupDone /\ Maps
  \/ /\ e.ev = "close_returned" /\ e.ok /\ CloseReturned /\ Maps
  \/ /\ e.ev = "waiter_released" /\ e.ok /\ srv.wgDone /\ Same /\ Maps   \* C17: same result
  \/ /\ e.ev = "connect_after_stop" /\ e.refused /\ srv.closeReturned /\ Same /\ Maps
  \/ /\ e.ev = "connect_failed" /\ ConnectRefused(e.c) /\ Maps
  \/ /\ e.ev \in {"release", "close_call", "body_frame", "client_write_failed"} /\ Same /\ Maps
  \* no disjunct for: cancel_timeout, close_timeout, waiter_timeout,
  \* await_step_timeout, await_end_timeout, connect_after_stop(refused = FALSE),
  \* close_returned(ok = FALSE): these are violations.

TraceNext == l <= Len(Rec) /\ Consume(Rec[l]) /\ l' = l + 1

TraceSpec == TraceInit /\ [][TraceNext]_tvars

\* action properties, exempting the step that starts a new episode
IsReset == l <= Len(Rec) /\ Rec[l].ev = "reset"
EndsOnceT == [][IsReset \/ EndsOnceStep]_tvars
NoProgressT == [][IsReset \/ NoProgressStep]_tvars

\* ---- diagnosis ------------------------------------------------------------
ASSUME TLCSet(1, 0) /\ TLCSet(2, <<>>)
Track ==
  IF l > TLCGet(1)
  THEN TLCSet(1, l) /\ TLCSet(2, [rq |-> [r \in {x \in Req : nonceOf[x] # ""} |-> rq[r]],
                                  cst |-> cst, srv |-> srv, wg |-> wg])
  ELSE TRUE

Accepted ==
  IF TLCGet(1) = Len(Rec) + 1 THEN TRUE
  ELSE /\ PrintT(<<"REJECT", TLCGet(1)>>)
       /\ PrintT(<<"REJECT-EVENT", Rec[TLCGet(1)]>>)
       /\ PrintT(<<"REJECT-STATE", TLCGet(2)>>)
       /\ FALSE
=============================================================================
