SPECIFICATION TraceSpec
CONSTRAINT Track
INVARIANT DetachedNeverCancelled
INVARIANT CancelOnlyWhenGone
INVARIANT NoHandlerBeforeReject
INVARIANT ShutdownWaits
INVARIANT CloseAfterDone
INVARIANT WgCounts
PROPERTY EndsOnceT
PROPERTY NoProgressT
POSTCONDITION Accepted
CHECK_DEADLOCK FALSE
