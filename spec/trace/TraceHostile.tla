---------------------------- MODULE TraceHostile ----------------------------
(***************************************************************************)
(* Trace validation for Hostile.tla (C18): fault / fault_resp / fault_closed*)
(* / health events recorded by the raw TCP driver.                         *)
(***************************************************************************)
EXTENDS Naturals, Sequences, FiniteSets, TLC, Json, IOUtils

Rec == ndJsonDeserialize(IOEnv.TRACE)
VARIABLES alive, open, answered, l, kinds
INSTANCE Hostile
tvars == <<alive, open, answered, l, kinds>>

TraceInit == Init /\ l = 1 /\ kinds = [x \in {} |-> ""]

Consume(e) ==
  \/ /\ e.ev = "reset" /\ UNCHANGED <<alive, open, answered, kinds>>
  \/ /\ e.ev = "fault" /\ Fault(e.f, e.kind) /\ kinds' = kinds @@ (e.f :> e.kind)
  \/ /\ e.ev = "fault_resp" /\ e.f \in DOMAIN kinds
     /\ FaultAnswered(e.f, kinds[e.f], e.wellformed, e.status) /\ UNCHANGED kinds
  \/ /\ e.ev = "fault_closed" /\ FaultClosed(e.f) /\ UNCHANGED kinds
  \/ /\ e.ev = "health" /\ Health(e.ok, e.status) /\ UNCHANGED kinds
  \/ /\ e.ev \in {"accept", "req_start", "version_ok", "route_ok", "extract_ok", "handler_call", "handler_return",
                  "spawn", "task_exit", "resp_ready", "body_frame", "req_cancelled", "close_requested",
                  "accept_exit", "graceful_done", "waitgroup_done", "handler_panic_on_purpose"}
     /\ UNCHANGED <<alive, open, answered, kinds>>

TraceNext == l <= Len(Rec) /\ Consume(Rec[l]) /\ l' = l + 1
TraceSpec == TraceInit /\ [][TraceNext]_tvars

ASSUME TLCSet(1, 0) /\ TLCSet(2, <<>>)
Track == IF l > TLCGet(1) THEN TLCSet(1, l) /\ TLCSet(2, [open |-> open]) ELSE TRUE
Accepted ==
  IF TLCGet(1) = Len(Rec) + 1 THEN TRUE
  ELSE /\ PrintT(<<"REJECT", TLCGet(1)>>)
       /\ PrintT(<<"REJECT-EVENT", Rec[TLCGet(1)]>>)
       /\ PrintT(<<"REJECT-STATE", TLCGet(2)>>)
       /\ FALSE
=============================================================================
