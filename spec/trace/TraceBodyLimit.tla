--------------------------- MODULE TraceBodyLimit ---------------------------
(***************************************************************************)
(* Trace validation for BodyLimit.tla at wire level (C11).  One request    *)
(* per episode.  The `reset` event carries what the client is about to     *)
(* send (extractor kind, limit configuration, expected effective cap,      *)
(* total length).  `route_ok` must carry the endpoint's override; every    *)
(* `body_frame` hook event must be a FrameN or OverflowN step of the       *)
(* specification with the expected cap and the running total; what the     *)
(* handler reports having observed must never exceed the cap and, for an   *)
(* accepted body, equal what was sent; the response status must be 2xx     *)
(* exactly when the body fits.                                             *)
(***************************************************************************)
EXTENDS Naturals, Sequences, FiniteSets, TLC, Json, IOUtils, KnownFindings

Rec == ndJsonDeserialize(IOEnv.TRACE)
MaxCap == 0
MaxTotal == 0
MaxFrames == 0

VARIABLES cap, pending, bytesRead, delivered, drained, phase,
          l, cur, hseen, routed, answered

INSTANCE BodyLimit

tvars == <<cap, pending, bytesRead, delivered, drained, phase, l, cur, hseen, routed, answered>>

\* Named deviation (known finding, listed in known_findings.json): an
\* extractor that does not apply the limit.  Tolerated only while the finding
\* is open, and reported each time it is used.
KnownOverCap(kind) ==
  LET key == [prop |-> "C11", kind |-> "over-cap-accepted", shape |-> kind] IN
  key \in KnownOpenBody /\ PrintT(<<"KNOWN", ToJson(key)>>)

NoCur == [n |-> "", kind |-> "", cap |-> 0, default |-> 0, total |-> 0, want |-> 0, sum |-> ""]

TraceInit ==
  /\ cap = 0 /\ pending = <<>> /\ bytesRead = 0 /\ delivered = <<>> /\ drained = 0
  /\ phase = "reading" /\ l = 1 /\ cur = NoCur /\ hseen = 0 - 1 /\ routed = FALSE /\ answered = FALSE

Keep == UNCHANGED <<cap, pending, bytesRead, delivered, drained, phase>>

Consume(e) ==
  \/ /\ e.ev = "reset"
     /\ cur' = [n |-> e.n, kind |-> e.kind, cap |-> e.cap, default |-> e.default,
                total |-> e.total, want |-> e.expect_seen, sum |-> e.sum]
     /\ cap' = e.cap /\ bytesRead' = 0 /\ delivered' = <<>> /\ phase' = "reading"
     /\ hseen' = 0 - 1 /\ routed' = FALSE /\ answered' = FALSE
     /\ UNCHANGED <<pending, drained>>
  \/ /\ e.ev = "route_ok"
     \* C11: effective limit = the endpoint's override, else the server default
     /\ EffCap(e.limit, cur.default) = cap
     /\ routed' = TRUE
     /\ Keep /\ UNCHANGED <<cur, hseen, answered>>
  \/ /\ e.ev = "body_frame"
     /\ routed /\ ~answered
     /\ e.cap = cap                      \* the reader was given the effective limit
     /\ e.read = bytesRead               \* its running total is the sum of what it delivered
     /\ IF e.over THEN OverflowN(e.len) ELSE FrameN(e.len)
     /\ UNCHANGED <<pending, drained, cur, hseen, routed, answered>>
  \/ /\ e.ev = "handler_chunk"           \* a streaming handler receives a chunk
     /\ e.seen <= cap
     /\ e.seen <= bytesRead
     /\ Keep /\ UNCHANGED <<cur, hseen, routed, answered>>
  \/ /\ e.ev = "handler_body"            \* what the handler observed in the end
     /\ e.seen <= cap \/ KnownOverCap(cur.kind)   \* C11: never more than the limit
     /\ cur.kind # "multipart" => e.seen <= bytesRead
     /\ e.complete => /\ e.seen = cur.want
                      /\ e.sum = cur.sum
                      /\ cur.kind # "multipart" => phase = "reading" /\ bytesRead = cur.total
     /\ hseen' = e.seen
     /\ Keep /\ UNCHANGED <<cur, routed, answered>>
  \/ /\ e.ev = "client_recv"
     /\ e.n = cur.n
     \* accepted and delivered intact iff it fits; refused with a 4xx otherwise
     /\ IF cur.total <= cap
        THEN e.status >= 200 /\ e.status <= 299 /\ hseen = cur.want /\ e.seen = cur.want
        ELSE \/ e.status >= 400 /\ e.status <= 499
             \/ e.status >= 200 /\ e.status <= 299 /\ KnownOverCap(cur.kind)
     /\ answered' = TRUE
     /\ Keep /\ UNCHANGED <<cur, hseen, routed>>
  \/ /\ e.ev \in {"accept", "req_start", "version_ok", "extract_ok", "handler_call", "handler_return",
                  "spawn", "task_exit", "resp_ready", "close_requested", "accept_exit", "graceful_done",
                  "waitgroup_done", "req_cancelled"}
     /\ Keep /\ UNCHANGED <<cur, hseen, routed, answered>>
  \* no disjunct for client_noresp: every request must be answered

TraceNext == l <= Len(Rec) /\ Consume(Rec[l]) /\ l' = l + 1
TraceSpec == TraceInit /\ [][TraceNext]_tvars

ASSUME TLCSet(1, 0) /\ TLCSet(2, <<>>)
Track ==
  IF l > TLCGet(1)
  THEN TLCSet(1, l) /\ TLCSet(2, [cur |-> cur, cap |-> cap, bytesRead |-> bytesRead, delivered |-> delivered,
                                  phase |-> phase, hseen |-> hseen, routed |-> routed])
  ELSE TRUE
Accepted ==
  IF TLCGet(1) = Len(Rec) + 1 THEN TRUE
  ELSE /\ PrintT(<<"REJECT", TLCGet(1)>>)
       /\ PrintT(<<"REJECT-EVENT", Rec[TLCGet(1)]>>)
       /\ PrintT(<<"REJECT-STATE", TLCGet(2)>>)
       /\ FALSE
=============================================================================
