--------------------------- MODULE TracePagination ---------------------------
(***************************************************************************)
(* Trace validation for Pagination.tla (C14, C15).                         *)
(*  - scan episodes: every `page` event must be the Fetch step of the      *)
(*    specification (the next EffLimit items, in order, a token iff the    *)
(*    page is non-empty); `scan_end` requires the scan to be complete;     *)
(*  - `case` events: the outcome by class must be the specification's      *)
(*    Outcome(token class, limit class, other-parameter class);            *)
(*  - `issue` / `mutant` events: the token bound is symmetric and only      *)
(*    tokens that decode to a selector are accepted, with that selector.   *)
(***************************************************************************)
EXTENDS Naturals, Sequences, FiniteSets, TLC, Json, IOUtils

Rec == ndJsonDeserialize(IOEnv.TRACE)
MaxItems == 10000
DefItems == 100
MaxN == 0
LimitParams == {0}

VARIABLES n, lim, pos, pages, open, l, mode, hp, big, aborted
INSTANCE Pagination
tvars == <<n, lim, pos, pages, open, l, mode, hp, big, aborted>>

NoHp == [n |-> ""]
TraceInit == /\ n = 0 /\ lim = 0 /\ pos = 0 /\ pages = <<>> /\ open = TRUE /\ l = 1 /\ mode = "none" /\ hp = NoHp
             /\ big = FALSE /\ aborted = FALSE

KeepScan == UNCHANGED <<n, lim, pos, pages, open>>

StatusReject(s) == s >= 400 /\ s <= 499

Consume(e) ==
  \/ /\ e.ev = "reset" /\ e.kind = "scan"
     /\ e.max = MaxItems /\ e.def = DefItems
     /\ n' = e.n /\ lim' = e.lim /\ pos' = 0 /\ pages' = <<>> /\ open' = TRUE
     /\ mode' = "scan" /\ hp' = NoHp /\ big' = e.big /\ aborted' = FALSE
  \/ /\ e.ev = "reset" /\ e.kind = "case"
     /\ mode' = "case" /\ hp' = NoHp /\ KeepScan /\ UNCHANGED <<big, aborted>>
  \/ /\ e.ev = "page" /\ mode = "scan"
     /\ e.status = 200
     /\ e.contig                              \* items inside a page are consecutive
     /\ Fetch([count |-> e.count, first |-> e.first, last |-> e.last, token |-> e.token])
     /\ ~big \/ e.count = 0
     /\ UNCHANGED <<mode, hp, big, aborted>>
  \* The page selector of this collection is too long for a token: the page
  \* that would need one fails as a whole (a 5xx), it is never delivered
  \* without its token.
  \/ /\ e.ev = "page" /\ mode = "scan" /\ big
     /\ e.status >= 500 /\ e.count = 0 /\ ~e.token
     /\ NextPageOf(n, lim, pos).count > 0
     /\ aborted' = TRUE
     /\ KeepScan /\ UNCHANGED <<mode, hp, big>>
  \/ /\ e.ev = "scan_end" /\ mode = "scan"
     /\ \/ ~open /\ pos = n /\ e.fetched = Len(pages)   \* C15: the scan ended and visited everything
        \/ aborted
     /\ KeepScan /\ UNCHANGED <<mode, hp, big, aborted>>
  \/ /\ e.ev = "handler_page"
     /\ hp' = e
     /\ mode = "scan" => /\ e.efflimit = EffLimit(IF lim > MaxItems THEN MaxItems + 1 ELSE lim)
                         /\ (pos = 0) = (e.which = "first")
     /\ KeepScan /\ UNCHANGED <<mode, big, aborted>>
  \/ /\ e.ev = "case"
     /\ LET out == Outcome(e.tc, e.lc, e.oc) IN
        IF e.via = "api"
        THEN /\ out.k = "reject" => e.status = 400
             /\ out.k = "first" => e.status = 200 /\ e.which = "first"
             /\ out.k = "next" => e.status = 200 /\ e.which = "next" /\ e.sel_equal
        ELSE /\ e.wellformed
             /\ out.k = "reject" => StatusReject(e.status) /\ hp = NoHp     \* no handler ran
             /\ out.k \in {"first", "next"} =>
                  /\ e.status = 200
                  /\ hp # NoHp /\ hp.n = e.nn /\ hp.which = out.k
                  /\ hp.efflimit = EffLimitClass(e.lc, e.limit_val)         \* C14: clamp / default
                  /\ out.k = "next" => hp.sel = e.want_sel                  \* C14: same selector back
     /\ KeepScan /\ UNCHANGED <<mode, hp, big, aborted>>
  \/ /\ e.ev = "issue"
     /\ Issue(e.enc) = e.out                   \* issued iff within the bound
     /\ e.out = "token" => e.roundtrip /\ e.len <= TokenBound /\ e.len = e.enc
     /\ KeepScan /\ UNCHANGED <<mode, hp, big, aborted>>
  \/ /\ e.ev = "mutant"
     /\ IF e.class = "valid" THEN e.accepted /\ e.equal ELSE ~e.accepted
     /\ KeepScan /\ UNCHANGED <<mode, hp, big, aborted>>
  \/ /\ e.ev \in {"accept", "req_start", "version_ok", "route_ok", "extract_ok", "handler_call",
                  "handler_return", "spawn", "task_exit", "resp_ready", "close_requested",
                  "accept_exit", "graceful_done", "waitgroup_done", "req_cancelled"}
     /\ KeepScan /\ UNCHANGED <<mode, hp, big, aborted>>
  \* no disjunct for scan_runaway

TraceNext == l <= Len(Rec) /\ Consume(Rec[l]) /\ l' = l + 1
TraceSpec == TraceInit /\ [][TraceNext]_tvars

ScanInv == mode = "scan" => PageBounds /\ (aborted \/ Complete)

ASSUME TLCSet(1, 0) /\ TLCSet(2, <<>>)
Track ==
  IF l > TLCGet(1)
  THEN TLCSet(1, l) /\ TLCSet(2, [n |-> n, lim |-> lim, pos |-> pos, npages |-> Len(pages), open |-> open,
                                  mode |-> mode, hp |-> hp])
  ELSE TRUE
Accepted ==
  IF TLCGet(1) = Len(Rec) + 1 THEN TRUE
  ELSE /\ PrintT(<<"REJECT", TLCGet(1)>>)
       /\ PrintT(<<"REJECT-EVENT", Rec[TLCGet(1)]>>)
       /\ PrintT(<<"REJECT-STATE", TLCGet(2)>>)
       /\ FALSE
=============================================================================
