--------------------------- MODULE TraceSchemaConv ---------------------------
(***************************************************************************)
(* Trace validation for SchemaConv.tla (C08): one `convert` line per type  *)
(* (input schema, published schema, probes), `adequacy` lines (input schema *)
(* vs a single-keyword mutant of it), `unsupported` lines.                 *)
(***************************************************************************)
EXTENDS SchemaConv, Json, IOUtils, KnownFindings

Rec == ndJsonDeserialize(IOEnv.TRACE)
VARIABLE l
TraceInit == l = 1

\* Named deviation (known finding F7): the null type is published as a string
\* enumeration of null without `nullable`.
KnownNullType(e) ==
  LET key == [prop |-> "C08", kind |-> "null-type", shape |-> "unit"] IN
  /\ key \in KnownOpenConv
  /\ UsesNullShape(e)
  /\ ConvertOkModuloNullShape(e)
  /\ PrintT(<<"KNOWN", ToJson(key)>>)

\* (the "= TRUE" forms make TLC evaluate the quantified formulas as state
\* predicates instead of enumerating their witnesses as separate successors)
Consume(e) ==
  \/ /\ e.ev = "convert"
     /\ Discriminating(e) = TRUE
     /\ (ConvertOk(e) \/ KnownNullType(e)) = TRUE
  \/ /\ e.ev = "adequacy" /\ Adequate(e) = TRUE
  \/ /\ e.ev = "unsupported" /\ e.explicit   \* an explicit "unsupported" panic defines the supported set

TraceNext == l <= Len(Rec) /\ Consume(Rec[l]) /\ l' = l + 1
TraceSpec == TraceInit /\ [][TraceNext]_l

ASSUME TLCSet(1, 0)
Track == IF l > TLCGet(1) THEN TLCSet(1, l) ELSE TRUE
Diag(e) ==
  IF e.ev = "convert"
  THEN [name |-> e.name, ev |-> e.ev,
        disagree |-> {<<i, Accepts(e.defs_in, e.in, e.probes[i])>> :
                        i \in Disagree(e.defs_in, e.in, e.defs_out, e.out, e.probes)},
        preserved |-> Preserved(e.in, e.out, e.root_is_component),
        discriminating |-> Discriminating(e)]
  ELSE IF e.ev = "adequacy" THEN [name |-> e.name, ev |-> e.ev, what |-> e.what]
  ELSE [name |-> e.name, ev |-> e.ev]
Accepted ==
  IF TLCGet(1) = Len(Rec) + 1 THEN TRUE
  ELSE /\ PrintT(<<"REJECT", TLCGet(1)>>)
       /\ PrintT(<<"REJECT-EVENT", Diag(Rec[TLCGet(1)])>>)
       /\ PrintT(<<"REJECT-STATE", "n/a">>)
       /\ FALSE
=============================================================================
