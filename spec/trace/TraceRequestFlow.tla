-------------------------- MODULE TraceRequestFlow --------------------------
(***************************************************************************)
(* Trace validation for RequestFlow.tla (C09, C10).  Requests run          *)
(* concurrently; each is tracked by its nonce.  For a request whose        *)
(* components are all valid the handler must be invoked exactly once with  *)
(* exactly the value the client encoded, see the request's own nonce       *)
(* header, method, target, peer port and request id, and the client gets a *)
(* 2xx.  For any invalid component: no extraction success, no handler, a   *)
(* 4xx.  Validity is recomputed here from the logged case (the driver's    *)
(* `valid` flag must agree).                                               *)
(***************************************************************************)
EXTENDS Naturals, Sequences, FiniteSets, TLC, Json, IOUtils, RequestFlow, KnownFindings

Rec == ndJsonDeserialize(IOEnv.TRACE)

VARIABLES l,
          rs,     \* nonce -> request record (removed when answered)
          idn     \* request id -> nonce

tvars == <<l, rs, idn>>

TraceInit == l = 1 /\ rs = [x \in {} |-> 0] /\ idn = [x \in {} |-> 0]

Known(n) == n \in DOMAIN rs
KnownId(id) == id \in DOMAIN idn /\ idn[id] \in DOMAIN rs

CaseSet(cs) == {cs[i] : i \in DOMAIN cs}

\* Named deviation (known finding): the case is refused although it is valid.
KnownRefusal(cs) ==
  \E x \in CaseSet(cs) :
     LET key == [prop |-> "C09", kind |-> "valid-refused", shape |-> x.pos \o ":" \o x.c] IN
     key \in KnownOpenFlow /\ PrintT(<<"KNOWN", ToJson(key)>>)
\* Named deviation (known finding): the case is accepted although it is invalid.
KnownAcceptance(cs) ==
  \E x \in CaseSet(cs) :
     LET key == [prop |-> "C10", kind |-> "invalid-accepted", shape |-> x.pos \o ":" \o x.c] IN
     key \in KnownOpenFlow /\ PrintT(<<"KNOWN", ToJson(key)>>)

Consume(e) ==
  \/ /\ e.ev = "reset" /\ UNCHANGED <<rs, idn>>
  \/ /\ e.ev = "flow_send"
     /\ ~Known(e.n)
     /\ e.valid = (Outcome(CaseSet(e.case)) = "invoke")     \* the driver and the specification agree
     /\ rs' = rs @@ (e.n :> [valid |-> e.valid, want |-> e.want_hex, port |-> e.port, m |-> e.m,
                             target |-> e.target_hex, case |-> e.case,
                             id |-> "", extracted |-> FALSE, echoed |-> FALSE])
     /\ UNCHANGED idn
  \/ /\ e.ev = "req_start"
     /\ IF Known(e.n)
        THEN /\ rs[e.n].id = ""
             /\ e.port = rs[e.n].port                      \* C09: the request's own peer
             /\ e.m = rs[e.n].m
             /\ rs' = [rs EXCEPT ![e.n].id = e.id]
             /\ idn' = idn @@ (e.id :> e.n)
        ELSE UNCHANGED <<rs, idn>>
  \/ /\ e.ev = "extract_ok"
     /\ IF KnownId(e.id)
        THEN LET n == idn[e.id] IN
             /\ rs[n].valid \/ KnownAcceptance(rs[n].case)  \* C10: extraction succeeds only for valid input
             /\ ~rs[n].extracted
             /\ rs' = [rs EXCEPT ![n].extracted = TRUE]
        ELSE UNCHANGED rs
     /\ UNCHANGED idn
  \/ /\ e.ev = "handler_echo"
     /\ Known(e.n)
     /\ rs[e.n].extracted /\ ~rs[e.n].echoed                \* C10: after extraction, exactly once
     /\ e.id = rs[e.n].id                                   \* C13: the handler's id is the request's id
     /\ e.hn = e.n                                          \* C09: its own headers ...
     /\ e.port = rs[e.n].port                               \*      ... peer address ...
     /\ e.m = rs[e.n].m /\ e.uri_hex = rs[e.n].target       \*      ... method and URI
     /\ rs[e.n].valid => e.val_hex = rs[e.n].want           \* C09: exactly the value that was sent
     /\ rs' = [rs EXCEPT ![e.n].echoed = TRUE]
     /\ UNCHANGED idn
  \/ /\ e.ev = "client_recv"
     /\ Known(e.n)
     /\ e.idhdr = <<rs[e.n].id>>                            \* C13
     /\ IF rs[e.n].valid
        THEN \/ e.status >= 200 /\ e.status <= 299 /\ rs[e.n].echoed
             \/ e.status >= 400 /\ e.status <= 499 /\ ~rs[e.n].echoed /\ KnownRefusal(rs[e.n].case)
        ELSE \/ e.status >= 400 /\ e.status <= 499 /\ ~rs[e.n].echoed /\ ~rs[e.n].extracted
             \/ e.status >= 200 /\ e.status <= 299 /\ KnownAcceptance(rs[e.n].case)
     /\ rs' = [x \in (DOMAIN rs) \ {e.n} |-> rs[x]]
     /\ UNCHANGED idn
  \/ /\ e.ev \in {"accept", "version_ok", "route_ok", "handler_call", "handler_return", "spawn", "task_exit",
                  "resp_ready", "body_frame", "close_requested", "accept_exit", "graceful_done",
                  "waitgroup_done", "req_cancelled"}
     /\ UNCHANGED <<rs, idn>>
  \* no disjunct for client_noresp (every request must be answered) or panic

TraceNext == l <= Len(Rec) /\ Consume(Rec[l]) /\ l' = l + 1
TraceSpec == TraceInit /\ [][TraceNext]_tvars

ASSUME TLCSet(1, 0) /\ TLCSet(2, <<>>)
Track ==
  IF l > TLCGet(1)
  THEN TLCSet(1, l) /\ TLCSet(2, [inflight |-> rs])
  ELSE TRUE
Accepted ==
  IF TLCGet(1) = Len(Rec) + 1 THEN TRUE
  ELSE /\ PrintT(<<"REJECT", TLCGet(1)>>)
       /\ PrintT(<<"REJECT-EVENT", Rec[TLCGet(1)]>>)
       /\ PrintT(<<"REJECT-STATE", TLCGet(2)>>)
       /\ FALSE
=============================================================================
