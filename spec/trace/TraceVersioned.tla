---------------------------- MODULE TraceVersioned ----------------------------
(***************************************************************************)
(* Trace validation of a live *versioned* server (C05 header policy, C04   *)
(* status and Allow bytes on the wire, C01 dispatch through the server).   *)
(* The `reset` event carries the route table of one path (method, version  *)
(* range on the grid, operation id) and the maximum supported version;     *)
(* each `vreq` event is one request: method, class of the version header,  *)
(* the grid version it names (0 if none), the status received, the Allow   *)
(* values received and the operation that answered ("" if none).           *)
(***************************************************************************)
EXTENDS Naturals, Sequences, FiniteSets, TLC, Json, IOUtils, Versions

Rec == ndJsonDeserialize(IOEnv.TRACE)
VARIABLES l, table, maxv
tvars == <<l, table, maxv>>
TraceInit == l = 1 /\ table = <<>> /\ maxv = 0

Entries == {table[i] : i \in DOMAIN table}
ServedAt(m, v) == {e \in Entries : e.m = m /\ InRange(e.r, v)}
MethodsAt(v) == {e.m : e \in {x \in Entries : InRange(x.r, v)}}
SetOf(seq) == {seq[i] : i \in DOMAIN seq}

Consume(e) ==
  \/ /\ e.ev = "reset" /\ table' = e.table /\ maxv' = e.max
  \/ /\ e.ev = "vreq"
     /\ LET out == HeaderOutcome(e.class, e.v, maxv) IN
        IF out.k = "reject"
        THEN /\ e.status >= 400 /\ e.status <= 499          \* C05: refused with a 4xx ...
             /\ e.op = ""                                   \*      ... and no handler ran
        ELSE LET s == ServedAt(e.m, out.v) IN
             IF s # {}
             THEN /\ Cardinality(s) = 1                      \* C02 on this table
                  /\ e.status = 200
                  /\ e.op = (CHOOSE x \in s : TRUE).op      \* C01/C05: routed at exactly that version
             ELSE /\ e.op = ""                              \* C04: no handler
                  /\ IF MethodsAt(out.v) = {}
                     THEN e.status = 404
                     ELSE /\ e.status = 405
                          /\ SetOf(e.allow) = MethodsAt(out.v)   \* C04: Allow bytes on the wire
                          /\ Len(e.allow) = Cardinality(MethodsAt(out.v))
     /\ UNCHANGED <<table, maxv>>
  \/ /\ e.ev \in {"accept", "req_start", "version_ok", "route_ok", "extract_ok", "handler_call", "handler_return",
                  "spawn", "task_exit", "resp_ready", "req_cancelled", "close_requested", "accept_exit",
                  "graceful_done", "waitgroup_done"}
     /\ UNCHANGED <<table, maxv>>

TraceNext == l <= Len(Rec) /\ Consume(Rec[l]) /\ l' = l + 1
TraceSpec == TraceInit /\ [][TraceNext]_tvars

ASSUME TLCSet(1, 0) /\ TLCSet(2, <<>>)
Track == IF l > TLCGet(1) THEN TLCSet(1, l) /\ TLCSet(2, [table |-> table, max |-> maxv]) ELSE TRUE
Accepted ==
  IF TLCGet(1) = Len(Rec) + 1 THEN TRUE
  ELSE /\ PrintT(<<"REJECT", TLCGet(1)>>)
       /\ PrintT(<<"REJECT-EVENT", Rec[TLCGet(1)]>>)
       /\ PrintT(<<"REJECT-STATE", TLCGet(2)>>)
       /\ FALSE
=============================================================================
