---------------------------- MODULE TraceVersioned ----------------------------
(***************************************************************************)
(* Trace validation of a live *versioned* server (C05 header policy, C04   *)
(* status and Allow bytes on the wire, C01 dispatch through the server).   *)
(* The `reset` event carries the route table of one path (method, version  *)
(* range on the grid, operation id) and the maximum supported version;     *)
(* each `vreq` event is one request: method, class of the version header,  *)
(* the grid version it names (0 if none), the status received, the Allow   *)
(* values received and the operation that answered ("" if none).  Since    *)
(* round f the reset also names the version *policy* (header / default-    *)
(* supplying Dynamic policy / Unversioned) and whether the server could be *)
(* built at all (an unversioned server refuses versioned routes).          *)
(* --                                                                      *)
(* values received and the operation that answered ("" if none).           *)
(***************************************************************************)
EXTENDS Naturals, Sequences, FiniteSets, TLC, Json, IOUtils, Versions

Rec == ndJsonDeserialize(IOEnv.TRACE)
VARIABLES l, table, maxv, policy, dflt, built
tvars == <<l, table, maxv, policy, dflt, built>>
TraceInit == l = 1 /\ table = <<>> /\ maxv = 0 /\ policy = "header" /\ dflt = 0 /\ built = FALSE

Entries == {table[i] : i \in DOMAIN table}
ServedAt(m, v) == {e \in Entries : e.m = m /\ RoutedInRange(e.r, v)}
MethodsAt(v) == {e.m : e \in {x \in Entries : RoutedInRange(x.r, v)}}
SetOf(seq) == {seq[i] : i \in DOMAIN seq}

\* `reset`: one server build.  The event carries the policy, the route table,
\* the maximum supported and default versions and whether the build succeeded;
\* the build must succeed exactly when Versions!BuildAccepted says so.
Consume(e) ==
  \/ /\ e.ev = "reset"
     /\ e.policy \in Policies
     /\ e.built = BuildAccepted(e.policy, {e.table[i].r : i \in DOMAIN e.table})
     /\ table' = e.table /\ maxv' = e.max /\ policy' = e.policy /\ dflt' = e.dflt /\ built' = e.built
  \/ /\ e.ev = "vreq"
     /\ built                                               \* requests only reach a server that was built
     /\ LET out == PolicyOutcome(policy, e.class, e.v, maxv, dflt) IN
        IF out.k = "reject"
        THEN /\ e.status >= 400 /\ e.status <= 499          \* C05: refused with a 4xx ...
             /\ e.op = ""                                   \*      ... and no handler ran
        ELSE IF e.p = "other"                               \* C04: a path nothing is registered on
        THEN e.status = 404 /\ e.op = ""
        ELSE LET s == ServedAt(e.m, out.v) IN
             IF s # {}
             THEN /\ Cardinality(s) = 1                      \* C02 on this table
                  /\ e.status = 200
                  /\ e.op = (CHOOSE x \in s : TRUE).op      \* C01/C05: routed at exactly that version
             ELSE /\ e.op = ""                              \* C04: no handler
                  /\ IF MethodsAt(out.v) = {}
                     THEN e.status = 404
                     ELSE /\ e.status = 405
                          /\ SetOf(e.allow) = MethodsAt(out.v)   \* C04: Allow bytes on the wire
                          /\ Len(e.allow) = Cardinality(MethodsAt(out.v))
     /\ UNCHANGED <<table, maxv, policy, dflt, built>>
  \/ /\ e.ev \in {"accept", "req_start", "version_ok", "route_ok", "extract_ok", "handler_call", "handler_return",
                  "spawn", "task_exit", "resp_ready", "req_cancelled", "close_requested", "accept_exit",
                  "graceful_done", "waitgroup_done"}
     /\ UNCHANGED <<table, maxv, policy, dflt, built>>

TraceNext == l <= Len(Rec) /\ Consume(Rec[l]) /\ l' = l + 1
TraceSpec == TraceInit /\ [][TraceNext]_tvars

ASSUME TLCSet(1, 0) /\ TLCSet(2, <<>>)
Track == IF l > TLCGet(1) THEN TLCSet(1, l) /\ TLCSet(2, [table |-> table, max |-> maxv, policy |-> policy, dflt |-> dflt, built |-> built]) ELSE TRUE
Accepted ==
  IF TLCGet(1) = Len(Rec) + 1 THEN TRUE
  ELSE /\ PrintT(<<"REJECT", TLCGet(1)>>)
       /\ PrintT(<<"REJECT-EVENT", Rec[TLCGet(1)]>>)
       /\ PrintT(<<"REJECT-STATE", TLCGet(2)>>)
       /\ FALSE
=============================================================================
