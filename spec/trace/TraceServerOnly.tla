-------------------------- MODULE TraceServerOnly --------------------------
(***************************************************************************)
(* Trace validation of executions nobody drove for the purpose: the        *)
(* repository's own integration tests, run with the hooks on               *)
(* (DROPSHOT_VERIF_TRACE).  Only the framework's events exist; what the    *)
(* tests' clients did is not recorded.  Every recorded event must be the   *)
(* Lifecycle.tla action it names, and the client steps that action needs   *)
(* (connect, send, disconnect) are *inferred*: composed in front of it     *)
(* with action composition.  All Lifecycle invariants are evaluated in     *)
(* every state.                                                            *)
(*                                                                         *)
(* What this can and cannot decide is narrower than TraceLifecycle: a      *)
(* client's departure is inferred whenever the server's step needs one, so *)
(* "the client stayed" is never known (the second conjunct of              *)
(* ShutdownWaits and StayedGetsResponse are vacuous here).  What remains   *)
(* is everything that only needs the server's side: the order of the steps *)
(* of a request, no handler before a refusal, one end per request and per  *)
(* handler, fresh request ids, one x-request-id equal to the id, detached   *)
(* tasks counted by the waitgroup, waitgroup_done only when they are done, *)
(* the order of the shutdown steps.                                        *)
(*                                                                         *)
(* bin/checks_lifecycle.py splits the per-process event files by server    *)
(* (hook field `srv`), decides each server's task mode from its `spawn`    *)
(* events, and renames requests and connections to slots, inserting        *)
(* `recycle` lines when a finished request's slot is reused.               *)
(* Needs -Dtlc2.tool.impl.Tool.cdot=true (TLC's action composition).       *)
(***************************************************************************)
EXTENDS Naturals, Sequences, FiniteSets, TLC, Json, IOUtils

Rec == ndJsonDeserialize(IOEnv.TRACE)
Mode == IOEnv.MODE

NSlots == 32
Req == {"r" \o ToString(i) : i \in 0..(NSlots - 1)}
Conn == {"c" \o ToString(i) : i \in 0..(2 * NSlots - 1)}
Ids == {Rec[i].id : i \in {j \in DOMAIN Rec : Rec[j].ev = "req_start"}}
MaxSteps == 1000000
SendKinds == {"full"}
Resets == FALSE

VARIABLES cst, rq, srv, wg, usedIds, l

INSTANCE Lifecycle

tvars == <<cst, rq, srv, wg, usedIds, l>>
Skip == UNCHANGED <<cst, rq, srv, wg, usedIds>>

TraceInit == Init /\ l = 1

\* ---- inferred client steps -------------------------------------------------
\* the client of request k has gone away (inferred when the server's step needs it)
InferGone(k) == IF ClientGone(k) THEN Skip ELSE ClientDisconnect(rq[k].conn)
\* every client with an unanswered request has gone away (needed by graceful_done;
\* this is where "the client stayed" becomes unknowable)
InferDepartures ==
  /\ cst' = [c \in Conn |->
               IF cst[c].client = "open" /\ \E r \in Req : rq[r].conn = c /\ InFlight(r)
               THEN [cst[c] EXCEPT !.client = "gone"] ELSE cst[c]]
  /\ UNCHANGED <<rq, srv, wg, usedIds>>
DropIfInline(k) == IF Mode = "cancel" /\ rq[k].h = "running" THEN HandlerDropped(k) ELSE Skip

\* Every disjunct says what happens to the cursor l itself: an inferred step (Mid) leaves it, the
\* recorded step (Last) advances it -- TLC's action composition needs each part to determine every variable.
Mid(A) == A /\ UNCHANGED l
Last(A) == A /\ l' = l + 1

Consume(e) ==
  \/ /\ e.ev = "reset"
     /\ cst' = [c \in Conn |-> [client |-> "idle", server |-> "none"]]
     /\ rq' = [r \in Req |-> InitReq]
     /\ srv' = [closeReq |-> FALSE, acceptExit |-> FALSE, gracefulDone |-> FALSE,
                wgDone |-> FALSE, closeReturned |-> FALSE]
     /\ wg' = 0
     /\ UNCHANGED usedIds /\ l' = l + 1
  \* bookkeeping of the slot allocator (not steps of the server)
  \/ /\ e.ev = "recycle"
     /\ rq[e.k].stage \in {"responded", "cancelled"}
     /\ rq[e.k].task # "spawned" /\ rq[e.k].h # "running"
     /\ rq' = [rq EXCEPT ![e.k] = InitReq]
     /\ UNCHANGED <<cst, srv, wg, usedIds>> /\ l' = l + 1
  \/ /\ e.ev = "recycle_conn"
     /\ \A r \in Req : rq[r].conn # e.c
     /\ cst' = [cst EXCEPT ![e.c] = [client |-> "idle", server |-> "none"]]
     /\ UNCHANGED <<rq, srv, wg, usedIds>> /\ l' = l + 1
  \* the framework's events
  \/ /\ e.ev = "accept" /\ (Mid(ClientConnect(e.c)) \cdot Last(Accept(e.c)))
  \/ /\ e.ev = "req_start" /\ (Mid(ClientSend(e.k, e.c, "full")) \cdot Last(ReqStart(e.k, e.id)))
  \/ /\ e.ev = "version_ok" /\ Last(VersionOk(e.k))
  \/ /\ e.ev = "route_ok" /\ Last(RouteOk(e.k))
  \/ /\ e.ev = "spawn" /\ Last(Spawn(e.k))
  \/ /\ e.ev = "extract_ok" /\ Last(ExtractOk(e.k))
  \/ /\ e.ev = "handler_call" /\ Last(HandlerEnter(e.k))
  \/ /\ e.ev = "handler_return" /\ Last(HandlerComplete(e.k, e.status))
  \/ /\ e.ev = "task_exit" /\ Last(TaskExit(e.k))
  \/ /\ e.ev = "req_cancelled"
     /\ \/ (Mid(InferGone(e.k)) \cdot Mid(DropIfInline(e.k))) \cdot Last(ReqCancelled(e.k))   \* the client left
        \/ rq[e.k].h = "running" /\ (Mid(HandlerPanic(e.k)) \cdot Last(ReqCancelled(e.k)))    \* the handler panicked
  \/ /\ e.ev = "resp_ready"
     /\ e.idhdr = <<rq[e.k].id>>                \* C13: exactly one x-request-id, the request's
     /\ Last(RespReady(e.k, e.status, e.err))
  \/ /\ e.ev = "close_requested" /\ Last(CloseRequested)
  \/ /\ e.ev = "accept_exit"        \* (shutdown by Drop is logged without a server id: inferred here)
     /\ (Mid(IF srv.closeReq THEN Skip ELSE CloseRequested) \cdot Last(AcceptExit))
  \/ /\ e.ev = "graceful_done" /\ (Mid(InferDepartures) \cdot Last(GracefulDone))
  \/ /\ e.ev = "waitgroup_done" /\ Last(WaitgroupDone)

TraceNext == l <= Len(Rec) /\ Consume(Rec[l])
TraceSpec == TraceInit /\ [][TraceNext]_tvars

IsBookkeeping == l <= Len(Rec) /\ Rec[l].ev \in {"reset", "recycle", "recycle_conn"}
EndsOnceT == [][IsBookkeeping \/ EndsOnceStep]_tvars
NoProgressT == [][IsBookkeeping \/ NoProgressStep]_tvars

ASSUME TLCSet(1, 0) /\ TLCSet(2, <<>>)
Busy == {r \in Req : rq[r].stage # "none" \/ rq[r].conn # NoConn}
Track ==
  IF l > TLCGet(1)
  THEN TLCSet(1, l) /\ TLCSet(2, [rq |-> [r \in Busy |-> rq[r]], srv |-> srv, wg |-> wg])
  ELSE TRUE

Accepted ==
  IF TLCGet(1) = Len(Rec) + 1 THEN TRUE
  ELSE /\ PrintT(<<"REJECT", TLCGet(1)>>)
       /\ PrintT(<<"REJECT-EVENT", Rec[TLCGet(1)]>>)
       /\ PrintT(<<"REJECT-STATE", TLCGet(2)>>)
       /\ FALSE
=============================================================================
