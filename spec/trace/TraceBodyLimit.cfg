SPECIFICATION TraceSpec
CONSTRAINT Track
INVARIANT NeverOverCap
POSTCONDITION Accepted
CHECK_DEADLOCK FALSE
