SPECIFICATION TraceSpec
CONSTRAINT Track
POSTCONDITION Accepted
CHECK_DEADLOCK FALSE
