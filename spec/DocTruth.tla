------------------------------- MODULE DocTruth -------------------------------
(***************************************************************************)
(* The OpenAPI document tells the truth about requests and responses       *)
(* (property C07).  Code anchors: dropshot/src/api_description.rs          *)
(* gen_openapi; extractor/metadata.rs get_metadata, schema_util.rs         *)
(* schema2struct (parameter list); extractor/body.rs TypedBody::metadata,  *)
(* untyped_metadata; handler.rs response_metadata, content_metadata for     *)
(* HttpError; error.rs HttpErrorResponseBody.                              *)
(*                                                                         *)
(* The contract of an operation is read from the real document; a request  *)
(* is built from that contract alone.  JsonSchema.tla decides whether a    *)
(* body is valid for a documented schema.                                  *)
(***************************************************************************)
EXTENDS JsonSchema

Success(status) == status >= 200 /\ status <= 399
ClientError(status) == status >= 400 /\ status <= 499
Error(status) == status >= 400 /\ status <= 599

\* (a) + (b): what the server must do with a request built from the document
\*   q.omitted   "" : every required parameter and the required body present
\*               otherwise the name of the required parameter left out ("(body)" for the body)
\*   q.has_body  the body is JSON and is checked against the documented schema
RequestOk(defs, q, status, handlerEntered) ==
  IF q.omitted # ""
  THEN ClientError(status) /\ ~handlerEntered                     \* a required parameter is missing
  ELSE (~q.has_body \/ Accepts(defs, q.schema, q.body)) =>
         (Success(status) \/ q.expect_handler_error) /\ handlerEntered
       \* a document-valid request is accepted (some harness operations answer
       \* with an error *from the handler* on purpose; the handler still ran)

\* (c) + (d): what the document must say about a response that was sent
ResponseOk(defs, p) ==
  /\ p.wellformed
  /\ p.listed                                     \* the status is listed for the operation
  /\ p.empty => TRUE
  /\ ~p.empty =>
       /\ p.declares_content => p.ctype_listed    \* the content type is listed for that status
       /\ p.has_schema => Accepts(defs, p.schema, p.body)   \* the body is valid for the documented schema
  /\ (p.declares_content /\ Success(p.status) /\ p.status # 204 /\ p.status < 300) => ~p.empty
=============================================================================
