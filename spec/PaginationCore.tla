----------------------------- MODULE PaginationCore -----------------------------
(***************************************************************************)
(* The scan of Pagination.tla (part 1): state and steps only, no bounds    *)
(* and no recursive operators, so that TLC (through Pagination.tla, which  *)
(* extends this module) and tlapm (proofs/PaginationProof.tla) work on the *)
(* same actions.                                                           *)
(***************************************************************************)
EXTENDS Naturals, Sequences

CONSTANTS MaxItems,   \* server maximum page size
          DefItems    \* server default page size

Min(a, b) == IF a <= b THEN a ELSE b

\* effective page size for a client limit parameter p (0 = absent, else >= 1)
EffLimit(p) == IF p = 0 THEN DefItems ELSE Min(p, MaxItems)

(***************************************************************************)
(* Part 1: a scan                                                          *)
(***************************************************************************)
VARIABLES n,        \* size of the collection (items are 1..n)
          lim,      \* the client's limit parameter, fixed for the scan (0 = absent)
          pos,      \* number of items returned so far
          pages,    \* sequence of pages: [count, first, last, token]
          open      \* TRUE while the last page carried a token (or nothing was fetched yet)

svars == <<n, lim, pos, pages, open>>

\* The page the server returns when `pos` items have been consumed: the next
\* EffLimit(lim) items (fewer at the end); a token iff the page is non-empty.
NextPageOf(n_, lim_, pos_) ==
  LET c == Min(EffLimit(lim_), n_ - pos_) IN
  [count |-> c, first |-> IF c = 0 THEN 0 ELSE pos_ + 1, last |-> IF c = 0 THEN 0 ELSE pos_ + c,
   token |-> c > 0]

\* Fetch(pg): the client fetches the next page and receives pg
Fetch(pg) ==
  /\ open
  /\ pg = NextPageOf(n, lim, pos)
  /\ pages' = Append(pages, pg)
  /\ pos' = pos + pg.count
  /\ open' = pg.token
  /\ UNCHANGED <<n, lim>>

ScanNext == Fetch(NextPageOf(n, lim, pos))
=============================================================================
