---------------------------- MODULE MC_Lifecycle ----------------------------
EXTENDS Lifecycle
\* Requests are interchangeable, so are connections and ids.
Symm == Permutations(Req) \cup Permutations(Conn) \cup Permutations(Ids)
=============================================================================
