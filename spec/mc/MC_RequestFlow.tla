--------------------------- MODULE MC_RequestFlow ---------------------------
EXTENDS RequestFlow, Json
VARIABLE done
Init == done = FALSE
Next == ~done /\ done' = TRUE
Spec == Init /\ [][Next]_done

Single == {[comps |-> {x}, out |-> Outcome({x})] : x \in AllCases}
\* pairs: a path case with a query case, a query case with a body case
PairPQ == {[comps |-> {p, q}, out |-> Outcome({p, q})] :
             p \in {x \in PathCasesT : x.ty \in {"u8", "bool"}}, q \in {x \in QueryCasesT : x.ty \in {"u32", "enum"}}}
PairQB == {[comps |-> {q, b}, out |-> Outcome({q, b})] :
             q \in {x \in QueryCasesT : x.ty = "u32"}, b \in {x \in JsonCases : x.c \in {"ok", "wrong_type", "truncated", "empty_body"}}}

\* sanity: one invalid component is enough to reject; all valid means invoke
RejectIfAnyInvalid == \A r \in Single \cup PairPQ \cup PairQB :
                         (r.out = "reject") = (\E x \in r.comps : ~Valid(x))
EmitVec == done => PrintT(<<"VEC", ToJson([single |-> Single, pq |-> PairPQ, qb |-> PairQB])>>)
=============================================================================
