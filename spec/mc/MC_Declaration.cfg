SPECIFICATION Spec
CONSTANTS
  MaxDocLen = 4
  NDecls = 60
INVARIANT AllDocsKeepText
INVARIANT EmitVec
CHECK_DEADLOCK FALSE
