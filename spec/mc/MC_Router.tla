----------------------------- MODULE MC_Router -----------------------------
(***************************************************************************)
(* Model-checking configurations for Router.tla and the replay-vector      *)
(* printer.  One module, several .cfg files choosing among the pools.      *)
(***************************************************************************)
EXTENDS Router, Json, KnownFindings

Seg(k, s) == [k |-> k, s |-> s]

\* parameter types that make a template acceptable
GoodPty(tpl) == [n \in TplVars(tpl) |-> IF KindOfVar(tpl, n) = "var" THEN "s" ELSE "a"]
NoQ == [x \in {} |-> "s"]

Ep(id, m, tpl, r) ==
  [id |-> id, m |-> m, bad |-> "none", tpl |-> tpl, r |-> r, vis |-> TRUE,
   pty |-> GoodPty(tpl), qty |-> NoQ, tags |-> {}]

\* number the elements of a set of <<m, tpl, r>> triples deterministically
RECURSIVE Number(_, _)
Number(S, next) ==
  IF S = {} THEN {}
  ELSE LET x == CHOOSE x \in S : TRUE
       IN {Ep(next, x[1], x[2], x[3])} \cup Number(S \ {x}, next + 1)

\* ---- shape pool: every template of <= MaxSegs segments ----------------------
ShapeSegs == {Seg("lit", "a"), Seg("lit", "b"), Seg("var", "x"), Seg("var", "y"),
              Seg("wild", "x"), Seg("wild", "y")}
TemplatesUpTo(n) == UNION {[1..k -> ShapeSegs] : k \in 0..n}

ShapePool2 == Number({"GET", "PUT"} \X TemplatesUpTo(2) \X {RAll}, 1)
\* three-segment templates, fewer names: literals a,b; variable x; wildcard y
ShapeSegs3 == {Seg("lit", "a"), Seg("lit", "b"), Seg("var", "x"), Seg("wild", "y")}
ShapePool3 == Number({"GET", "PUT"} \X (UNION {[1..k -> ShapeSegs3] : k \in 0..3}) \X {RAll}, 1)

\* ---- versioned pool: few templates, every range over end-points {2,4} -------
VerTemplates == { <<>>, <<Seg("lit", "a")>>, <<Seg("var", "x")>>,
                  <<Seg("lit", "a"), Seg("wild", "y")>> }
VerPool == Number({"GET", "PUT"} \X VerTemplates \X Ranges({2, 4}), 1)

\* same, with published and unpublished endpoints (C06)
RECURSIVE NumberV(_, _)
NumberV(S, next) ==
  IF S = {} THEN {}
  ELSE LET x == CHOOSE x \in S : TRUE
       IN {[Ep(next, x[1], x[2], x[3]) EXCEPT !.vis = x[4]]} \cup NumberV(S \ {x}, next + 1)
VerVisPool == NumberV({"GET", "PUT"} \X {<<>>, <<Seg("lit", "a")>>, <<Seg("var", "x")>>,
                                          <<Seg("lit", "a"), Seg("wild", "y")>>}
                        \X Ranges({2, 4}) \X BOOLEAN, 1)

\* ---- parameters / tags pool ------------------------------------------------
ParamTemplates == { <<Seg("lit", "a")>>, <<Seg("var", "x")>>, <<Seg("lit", "a"), Seg("wild", "x")>> }
Funs(D) == UNION {[S -> {"s", "a", "o"}] : S \in SUBSET D}
RECURSIVE NumberP(_, _)
NumberP(S, next) ==
  IF S = {} THEN {}
  ELSE LET x == CHOOSE x \in S : TRUE
       IN {[id |-> next, m |-> "GET", bad |-> "none", tpl |-> x[1], r |-> RAll, vis |-> x[5],
            pty |-> x[2], qty |-> x[3], tags |-> x[4]]} \cup NumberP(S \ {x}, next + 1)
ParamPool == NumberP(ParamTemplates \X Funs({"x", "y"}) \X Funs({"x", "q"})
                       \X {{}, {"t"}} \X {TRUE}, 1)
TagPool == NumberP({<<Seg("lit", "a")>>} \X {NoQ} \X {NoQ}
                     \X (SUBSET {"t", "u", "w"}) \X BOOLEAN, 1)

\* ---- malformed path strings ------------------------------------------------
BadPool == { [id |-> i, m |-> "GET",
              bad |-> <<"noslash", "emptyseg", "badbrace", "emptyvar", "badpat">>[i],
              tpl |-> <<>>, r |-> RAll, vis |-> TRUE, pty |-> NoQ, qty |-> NoQ, tags |-> {}]
             : i \in 1..5 }
             \cup {Ep(6, "GET", <<Seg("lit", "a")>>, RAll)}

\* ---------------------------------------------------------------------------
\* Replay vector: one JSON object per distinct state.
\* ---------------------------------------------------------------------------
EpJson(e) == [id |-> e.id, m |-> e.m, bad |-> e.bad, tpl |-> e.tpl, r |-> e.r, vis |-> e.vis,
              pty |-> e.pty, qty |-> e.qty, tags |-> e.tags]

ById(id) == CHOOSE e \in Pool : e.id = id

Vector ==
  [ regs  |-> [i \in DOMAIN hist |-> EpJson(ById(hist[i]))],
    next  |-> { [e |-> EpJson(e), out |-> RegisterOutcome(trie, e).st] :
                  e \in {x \in Pool : x.id \notin {y.id : y \in eps}} },
    table |-> { [m |-> q.m, p |-> q.p, v |-> q.v, r |-> Lookup(trie, q.m, q.p, q.v)] :
                  q \in {x \in Reqs : Lookup(trie, x.m, x.p, x.v).k # "404"} },
    docs  |-> { [v |-> v, ops |-> DocOps(trie, v)] : v \in ProbeVers },
    tagpolicy |-> TagPolicy, allowother |-> AllowOtherTags, knowntags |-> KnownTags,
    methods |-> ReqMethods, alpha |-> SegAlpha, maxlen |-> MaxReqLen, vers |-> ProbeVers ]

EmitVec == PrintT(<<"VEC", ToJson(Vector)>>)

\* One pass over the violations of the current state: known (open) findings are
\* reported and tolerated, anything else fails the invariant after printing
\* its key and the registration history that produced it.
CheckViolations ==
  \A x \in Violations(trie, eps) :
     x.prop \in Props =>
       IF x \in KnownOpen
       THEN PrintT(<<"KNOWN", ToJson(x)>>)
       ELSE PrintT(<<"VIOL", ToJson([viol |-> x,
                                     witness |-> {[req |-> q, got |-> Lookup(trie, q.m, q.p, q.v)] :
                                                    q \in {r \in Reqs : x \in ReqViolations(trie, eps, r)}},
                                     regs |-> [i \in DOMAIN hist |-> EpJson(ById(hist[i]))]])>>)
            /\ FALSE

\* known-finding keys come from known_findings.json through a generated module
=============================================================================
