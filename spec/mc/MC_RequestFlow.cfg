SPECIFICATION Spec
INVARIANT RejectIfAnyInvalid
INVARIANT EmitVec
CHECK_DEADLOCK FALSE
