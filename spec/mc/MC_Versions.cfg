SPECIFICATION Spec
CONSTANTS
  EndPoints = {2, 4, 6}
  Probes = {1, 2, 3, 4, 5, 6, 7}
  MaxSupported = 4
INVARIANT RangeSemantics
INVARIANT OverlapIffShared
INVARIANT HeaderPolicyTotal
INVARIANT EmitVec
CHECK_DEADLOCK FALSE
