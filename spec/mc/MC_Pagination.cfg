SPECIFICATION ScanSpec
CONSTANTS
  MaxItems = 3
  DefItems = 2
  MaxN = 9
  LimitParams = {0, 1, 2, 3, 4, 5}
INVARIANT PageBounds
INVARIANT InOrderOnce
INVARIANT Complete
INVARIANT ScanLength
INVARIANT CasesTotal
INVARIANT TokenWins
INVARIANT BadAlwaysRejected
INVARIANT IssuedIsAcceptable
INVARIANT EmitCases
PROPERTY ScanTerminates
CHECK_DEADLOCK FALSE
