SPECIFICATION MCSpec
CONSTANTS
  MaxCap = 5
  MaxTotal = 6
  MaxFrames = 4
INVARIANT NeverOverCap
INVARIANT Verdict
INVARIANT EmitVec
PROPERTY Terminates
CHECK_DEADLOCK FALSE
