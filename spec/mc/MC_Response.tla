----------------------------- MODULE MC_Response -----------------------------
EXTENDS Response, Json

HdrNames == {"x-a", "x-b"}
Funs(D, R) == UNION {[S -> R] : S \in SUBSET D}

SuccessCases ==
  { [kind |-> k, declared |-> d, explicit |-> e,
     out |-> Success(k, [x \in DOMAIN d |-> "d"], d, [x \in DOMAIN e |-> "e"])] :
      k \in Kinds \ {"found", "see_other", "temporary_redirect"},
      d \in Funs(HdrNames, DeclClasses), e \in Funs(HdrNames, {"ascii"}) }

RedirectCases == { [kind |-> k, loc |-> l, out |-> Redirect(k, l)] :
                     k \in {"found", "see_other", "temporary_redirect"}, l \in LocClasses }

ErrorCases ==
  { [ctor |-> c, status |-> s, nattached |-> na, out |-> ErrorResponse(c, s, na)] :
      c \in Ctors, s \in {400, 404, 409, 418, 429, 499}, na \in 0..3 }

StatusSets == [ error_lo |-> 400, error_hi |-> 599, client_lo |-> 400, client_hi |-> 499 ]

\* sanity of the tables
OverrideRule ==
  \A c \in SuccessCases : c.out.k = "sent" =>
     \A x \in DOMAIN c.out.headers :
        c.out.headers[x] = (IF x \in DOMAIN c.explicit THEN "e" ELSE "d")
StatusRule == \A c \in SuccessCases : c.out.k = "sent" => c.out.status \in {200, 201, 202, 204}
NoBodyRule == \A c \in SuccessCases \cup RedirectCases :
                 c.out.k = "sent" /\ c.out.status \in {204, 302, 303, 307} => c.out.body = "empty"
ErrorRule == \A c \in ErrorCases : ErrorStatusOk(c.out.status) /\ ~c.out.leaks_internal
StatusSetsRule == /\ \A x \in 0..700 : ClientErrorStatusOk(x) => ErrorStatusOk(x)
                  /\ ~ErrorStatusOk(399) /\ ErrorStatusOk(400) /\ ErrorStatusOk(599) /\ ~ErrorStatusOk(600)
                  /\ ClientErrorStatusOk(499) /\ ~ClientErrorStatusOk(500)

VARIABLE done
Init == done = FALSE
Next == ~done /\ done' = TRUE
Spec == Init /\ [][Next]_done
EmitVec == done =>
  PrintT(<<"VEC", ToJson([success |-> SuccessCases, redirect |-> RedirectCases, error |-> ErrorCases,
                          sets |-> StatusSets])>>)
=============================================================================
