--------------------------- MODULE MC_Declaration ---------------------------
EXTENDS Declaration, Json

CONSTANTS MaxDocLen,   \* doc comments of up to this many lines are enumerated exhaustively
          NDecls       \* number of declarations emitted for the compile-and-compare step

Docs == UNION {[1..n -> LineKinds] : n \in 0..MaxDocLen}

\* all attribute combinations
Attrs == [ method : Methods, versions : VersionKinds, tags : {{}, {"t1"}, {"t1", "t2"}},
           opid : {"none", "custom"}, ctype : {"json", "form"}, maxbytes : {0, 64, 4096},
           deprecated : BOOLEAN, unpublished : BOOLEAN, kind : {"endpoint", "channel"} ]
\* body-related arguments only make sense with a body; channels are GET
Sensible(a) ==
  /\ a.ctype = "form" => a.method \in {"PUT", "POST"}
  /\ a.maxbytes # 0 => a.method \in {"PUT", "POST"}
  /\ a.kind = "channel" => a.method = "GET" /\ a.ctype = "json" /\ a.maxbytes = 0

\* a deterministic selection of NDecls declarations: attribute combinations and
\* doc shapes are walked in lock step with co-prime strides so that every value
\* of every argument and every pair of "adjacent" arguments occurs
RECURSIVE SetToSeq(_)
SetToSeq(S) == IF S = {} THEN <<>> ELSE LET x == CHOOSE x \in S : TRUE IN <<x>> \o SetToSeq(S \ {x})
AttrSeq == SetToSeq({a \in Attrs : Sensible(a)})
DocSeq == SetToSeq(Docs)
Decl(i) == AttrSeq[((i * 37) % Len(AttrSeq)) + 1] @@ [doc |-> DocSeq[((i * 11) % Len(DocSeq)) + 1], id |-> i]
Decls == {Decl(i) : i \in 1..NDecls}

VARIABLE done
Init == done = FALSE
Next == ~done /\ done' = TRUE
Spec == Init /\ [][Next]_done

\* C19 design-level: no text lost, for every doc comment shape
AllDocsKeepText == \A d \in Docs : NoTextLost(d)
EmitVec == done => \A d \in Decls : PrintT(<<"VEC", ToJson([decl |-> d, expected |-> Expected(d), texts |-> Texts(d.doc)])>>)
=============================================================================
