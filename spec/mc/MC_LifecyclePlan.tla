-------------------------- MODULE MC_LifecyclePlan --------------------------
(***************************************************************************)
(* Spec -> implementation for Lifecycle.tla: behaviours of the             *)
(* specification, with the sequence of actions taken recorded in a history *)
(* variable, are printed as schedules.  bin/checks_lifecycle.py projects   *)
(* each behaviour onto the steps a client / the gates / close() can        *)
(* enforce, and drive_lifecycle runs them against the real server; the     *)
(* recorded trace is then validated by TraceLifecycle.tla like every other *)
(* trace (the real server may order its own steps differently from the     *)
(* behaviour that suggested the schedule; only the trace is judged).       *)
(*                                                                         *)
(* Used with `tlc -simulate`: the history variable costs nothing there.    *)
(* A behaviour is printed when it reaches a terminal state (nothing left   *)
(* to do: close() has returned and no action is enabled).                  *)
(***************************************************************************)
EXTENDS Lifecycle, Json

CONSTANT MinBeforeClose   \* generator bias only: close() is not called before this many steps
VARIABLE hist
pvars == <<cst, rq, srv, wg, usedIds, hist>>

Lab(name, x, y) == hist' = Append(hist, [act |-> name, x |-> x, y |-> y, z |-> ""])
Lab3(name, x, y, z) == hist' = Append(hist, [act |-> name, x |-> x, y |-> y, z |-> z])

PlanInit == Init /\ hist = <<>>

Steps ==
  \/ \E c \in Conn : (ClientConnect(c) /\ Lab("ClientConnect", c, ""))
  \/ \E c \in Conn : (ConnectRefused(c) /\ Lab("ConnectRefused", c, ""))
  \/ \E c \in Conn : (ClientDisconnect(c) /\ Lab("ClientDisconnect", c, ""))
  \/ \E c \in Conn : (Accept(c) /\ Lab("Accept", c, ""))
  \/ \E r \in Req, c \in Conn, k \in SendKinds : (ClientSend(r, c, k) /\ Lab3("ClientSend", r, c, k))
  \/ \E r \in Req : (ClientFinish(r) /\ Lab("ClientFinish", r, ""))
  \/ \E r \in Req : (ClientNoResponse(r) /\ Lab("ClientNoResponse", r, ""))
  \/ \E r \in Req : (Resets /\ ClientReset(r) /\ Lab("ClientReset", r, ""))
  \/ \E r \in Req, id \in Ids : (ReqStart(r, id) /\ Lab("ReqStart", r, ""))
  \/ \E r \in Req : (VersionOk(r) /\ Lab("VersionOk", r, ""))
  \/ \E r \in Req : (RouteOk(r) /\ Lab("RouteOk", r, ""))
  \/ \E r \in Req : (Spawn(r) /\ Lab("Spawn", r, ""))
  \/ \E r \in Req : (ExtractOk(r) /\ Lab("ExtractOk", r, ""))
  \/ \E r \in Req : (HandlerEnter(r) /\ Lab("HandlerEnter", r, ""))
  \/ \E r \in Req : (HandlerStep(r) /\ Lab("HandlerStep", r, ""))
  \/ \E r \in Req : (HandlerPanic(r) /\ Lab("HandlerPanic", r, ""))
  \/ \E r \in Req : (HandlerDropped(r) /\ Lab("HandlerDropped", r, ""))
  \/ \E r \in Req : (TaskExit(r) /\ Lab("TaskExit", r, ""))
  \/ \E r \in Req : (ReqCancelled(r) /\ Lab("ReqCancelled", r, ""))
  \/ \E r \in Req, s \in {200, 500} : (HandlerComplete(r, s) /\ Lab("HandlerComplete", r, ToString(s)))
  \/ \E r \in Req, s \in {200, 400, 500} : (RespReady(r, s, s >= 400) /\ Lab("RespReady", r, ToString(s)))
  \/ \E r \in Req : (ClientRecv(r, rq[r].status, TRUE, rq[r].id) /\ Lab("ClientRecv", r, ""))
  \/ (Len(hist) >= MinBeforeClose /\ CloseRequested /\ Lab("CloseRequested", "", ""))
  \/ (AcceptExit /\ Lab("AcceptExit", "", ""))
  \/ (GracefulDone /\ Lab("GracefulDone", "", ""))
  \/ (WaitgroupDone /\ Lab("WaitgroupDone", "", ""))
  \/ (CloseReturned /\ Lab("CloseReturned", "", ""))

\* a schedule ends when close() has returned
PlanNext == ~srv.closeReturned /\ Steps

PlanSpec == PlanInit /\ [][PlanNext]_pvars

\* a behaviour is printed once, in the state that ends it
EmitPlan == srv.closeReturned => PrintT(<<"VEC", ToJson(hist)>>)

\* the properties of Lifecycle.tla hold along every printed behaviour as well
=============================================================================
