---------------------------- MODULE MC_BodyLimit ----------------------------
EXTENDS BodyLimit, Json
VARIABLE body0      \* the whole body as sent (history, for the verdict invariants)
mcvars == <<vars, body0>>
MCInit == Init /\ body0 = pending
MCNext == Next /\ UNCHANGED body0
MCSpec == MCInit /\ [][MCNext]_mcvars /\ WF_mcvars(MCNext)

DataLens(fs) == LET d == SelectSeq(fs, LAMBDA f : f.k = "data") IN [i \in DOMAIN d |-> d[i].n]
IsPrefix(s, t) == Len(s) <= Len(t) /\ \A i \in DOMAIN s : s[i] = t[i]

\* accepted iff the whole body fits; accepted bodies are delivered intact;
\* what is delivered is always a prefix of what was sent
Verdict ==
  /\ phase = "done" => SumData(body0) <= cap /\ delivered = DataLens(body0)
  /\ phase = "rejected" => SumData(body0) > cap
  /\ IsPrefix(delivered, DataLens(body0))

Terminal == phase \in {"done", "rejected"}
EmitVec == Terminal =>
  PrintT(<<"VEC", ToJson([cap |-> cap, frames |-> body0, delivered |-> delivered,
                          verdict |-> phase, drained |-> drained])>>)
=============================================================================
