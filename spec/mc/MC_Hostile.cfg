SPECIFICATION Spec
INVARIANT ServerNeverDies
CHECK_DEADLOCK FALSE
