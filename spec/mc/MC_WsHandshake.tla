---------------------------- MODULE MC_WsHandshake ----------------------------
EXTENDS WsHandshake, Json

E(t, sp) == [t |-> t, sp |-> sp]
ConnElems == {E("upgrade", "upgrade"), E("upgrade", "Upgrade"), E("upgrade", "UPGRADE"),
              E("keep-alive", "keep-alive"), E("close", "close"), E("x-upgrade", "x-upgrade")}
UpgElems == {E("websocket", "websocket"), E("websocket", "WebSocket"), E("websocket", "WEBSOCKET"),
             E("h2c", "h2c"), E("websocket2", "websocket2")}
Seps == {"comma", "comma_sp", "sp_comma", "comma_tab", "comma_sp_sp"}

\* header spellings: absent, one line of 1..2 elements, or two lines
Lists(El) == {<<>>} \cup {<< <<a>> >> : a \in El} \cup {<< <<a, b>> >> : a \in El, b \in El}
             \cup {<< <<a>>, <<b>> >> : a \in El, b \in El}

CONSTANT Full   \* TRUE: all element spellings; FALSE: a smaller set (quick)
ConnEl == IF Full THEN ConnElems ELSE {e \in ConnElems : e.sp \in {"upgrade", "Upgrade", "keep-alive", "x-upgrade"}}
UpgEl == IF Full THEN UpgElems ELSE {e \in UpgElems : e.sp \in {"websocket", "WebSocket", "h2c"}}
\* the separator only matters when some line has two elements
HasPair(l) == \E i \in DOMAIN l : Len(l[i]) > 1
Reqs == {r \in [conn : Lists(ConnEl), upg : Lists(UpgEl), ver : {"absent", "13", "other"},
                 key : {"absent", "present", "odd"}, sep : Seps] :
           (~HasPair(r.conn) /\ ~HasPair(r.upg)) => r.sep = "comma"}

\* the spelling of a list never matters
SpellingFree ==
  \A a, b \in ConnElems :
     /\ HasToken(<< <<a, b>> >>, "upgrade") = HasToken(<< <<a>>, <<b>> >>, "upgrade")
     /\ HasToken(<< <<a, b>> >>, "upgrade") = HasToken(<< <<b, a>> >>, "upgrade")
OnlyGoodUpgrades == \A r \in Reqs : Outcome(r).upgraded = Good(r)

VARIABLE done
Init == done = FALSE
Next == ~done /\ done' = TRUE
Spec == Init /\ [][Next]_done
EmitVec == done => \A r \in Reqs : PrintT(<<"VEC", ToJson([req |-> r, out |-> Outcome(r)])>>)
=============================================================================
