SPECIFICATION FairSpec
CONSTANTS
  Conn = {c1, c2}
  Req = {r1, r2}
  Ids = {i1, i2}
  MaxSteps = 1
  SendKinds = {"full", "head", "body"}
  Resets = TRUE
  Mode = "cancel"
INVARIANT DetachedNeverCancelled
INVARIANT CancelOnlyWhenGone
INVARIANT NoHandlerBeforeReject
INVARIANT ShutdownWaits
INVARIANT CloseAfterDone
INVARIANT StayedGetsResponse
INVARIANT IdsUnique
INVARIANT WgCounts
PROPERTY EndsOnce
PROPERTY NoProgressAfterCancel
PROPERTY NoAcceptAfterExit
PROPERTY CancelOnDisconnect
PROPERTY ShutdownCompletes
CHECK_DEADLOCK FALSE
