---------------------------- MODULE MC_Pagination ----------------------------
EXTENDS Pagination, Json
\* class table, printed once: the harness instantiates every class
Cases == { [tc |-> tc, lc |-> lc, oc |-> oc, out |-> Outcome(tc, lc, oc)] :
             tc \in TokenClasses, lc \in LimitClasses, oc \in OtherClasses }
EmitCases == (pos = 0 /\ n = 0 /\ lim = 0 /\ pages = <<>>) => PrintT(<<"VEC", ToJson([cases |-> Cases])>>)
\* sanity of the class table
CasesTotal == \A c \in Cases : c.out.k \in {"reject", "first", "next"}
TokenWins == \A c \in Cases : (c.tc \in {"issued", "valid_other"} /\ LimitOk(c.lc)) => c.out.k = "next"
BadAlwaysRejected == \A c \in Cases : (~LimitOk(c.lc) \/ ~TokenOk(c.tc)) => c.out.k = "reject"
=============================================================================
