SPECIFICATION Spec
CONSTANTS
  Tokens <- AllTokens
  MaxLen = 4
INVARIANT SlashInsensitive
INVARIANT SegmentCount
INVARIANT NoUnsafeSegment
INVARIANT DecodedOnce
INVARIANT EmitVec
CHECK_DEADLOCK FALSE
