SPECIFICATION Spec
CONSTANT Full = FALSE
INVARIANT SpellingFree
INVARIANT OnlyGoodUpgrades
INVARIANT EmitVec
CHECK_DEADLOCK FALSE
