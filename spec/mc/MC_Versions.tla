---------------------------- MODULE MC_Versions ----------------------------
(***************************************************************************)
(* Exhaustive check of Versions.tla over a grid: every ordered pair of     *)
(* ranges with end-points on the even points, every probe on all points.   *)
(* Each pair is one state and one replay vector.                           *)
(***************************************************************************)
EXTENDS Versions, Sequences, TLC, Json

CONSTANTS EndPoints, Probes, MaxSupported

VARIABLE pair
vars == <<pair>>

AllRanges == Ranges(EndPoints)

Init == pair \in AllRanges \X AllRanges
Next == UNCHANGED pair
Spec == Init /\ [][Next]_vars

\* C05: the code's membership test means what the property says
RangeSemantics ==
  \A v \in Probes : MatchesCode(pair[1], v) = InRange(pair[1], v)

\* C05: the code calls two ranges conflicting iff some version is in both,
\* whichever is registered first
OverlapIffShared ==
  /\ OverlapsCode(pair[1], pair[2]) = Shared(pair[1], pair[2], Probes)
  /\ OverlapsCode(pair[1], pair[2]) = OverlapsCode(pair[2], pair[1])

\* The unbounded theorem (proofs/VersionsProof.tla, checked by tlapm: over all
\* integers the code's overlap test holds iff the ranges share a version) is
\* stated about VersionsUnbounded's copies of these operators; on the grid the
\* copies and the originals are the same functions.
U == INSTANCE VersionsUnbounded
Padded(r) == [k |-> r.k, a |-> IF "a" \in DOMAIN r THEN r.a ELSE 0, b |-> IF "b" \in DOMAIN r THEN r.b ELSE 0]
SameAsUnbounded ==
  /\ U!IsRange(Padded(pair[1])) /\ U!IsRange(Padded(pair[2]))
  /\ \A v \in Probes : /\ U!M(Padded(pair[1]), v) = MatchesCode(pair[1], v)
                       /\ U!InR(Padded(pair[1]), v) = InRange(pair[1], v)
  /\ U!Ov(Padded(pair[1]), Padded(pair[2])) = OverlapsCode(pair[1], pair[2])

\* Grid adequacy (why this finite check decides the dense semver order): all
\* end-points are even grid points; any version strictly between two adjacent
\* end-points is, for every range with end-points in EndPoints, a member exactly
\* when the odd point between them is; versions below / above all end-points
\* behave like the first / last probe.  So the probes are a complete set of
\* representatives.

\* header policy: each class of header value, each version on the grid
HeaderCases ==
  { [class |-> c, v |-> v, out |-> HeaderOutcome(c, v, MaxSupported)] :
      c \in HeaderClasses, v \in Probes }
HeaderPolicyTotal ==
  \A h \in HeaderCases :
     /\ h.out.k \in {"route", "reject"}
     /\ h.out.k = "route" => h.class = "ok" /\ h.v <= MaxSupported /\ h.out.v = h.v
     /\ (h.class = "ok" /\ h.v <= MaxSupported) => h.out.k = "route"

\* The build rule of an unversioned server (server.rs) is exactly the condition
\* under which routing *without* a version is faithful to every range it may
\* meet: accepted iff, for both ranges, membership does not depend on the version.
UnversionedBuildRule ==
  LET rs == {pair[1], pair[2]} IN
  BuildAccepted("unversioned", rs) <=>
     \A r \in rs : \A v \in Probes : RoutedInRange(r, 0) = InRange(r, v)
\* a Dynamic policy never builds differently from the header policy, and the
\* default-supplying policy differs from it only for an absent header
PolicyRefinesHeader ==
  \A c \in HeaderClasses, v \in Probes, d \in Probes :
     /\ BuildAccepted("default", {pair[1], pair[2]}) /\ BuildAccepted("header", {pair[1], pair[2]})
     /\ PolicyOutcome("header", c, v, MaxSupported, d) = HeaderOutcome(c, v, MaxSupported)
     /\ c # "missing" => PolicyOutcome("default", c, v, MaxSupported, d) = HeaderOutcome(c, v, MaxSupported)
     /\ PolicyOutcome("default", "missing", v, MaxSupported, d) = [k |-> "route", v |-> d]
     /\ PolicyOutcome("unversioned", c, v, MaxSupported, d) = [k |-> "route", v |-> 0]

EmitVec ==
  PrintT(<<"VEC", ToJson([ r1 |-> pair[1], r2 |-> pair[2],
                           member1 |-> [v \in Probes |-> InRange(pair[1], v)],
                           shared |-> Shared(pair[1], pair[2], Probes),
                           probes |-> Probes ])>>)
=============================================================================
