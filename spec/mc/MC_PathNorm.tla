---------------------------- MODULE MC_PathNorm ----------------------------
EXTENDS PathNorm, Json
AllTokens == {"a", "dot", "slash", "p2e", "p2E", "p2f", "p2F", "p25", "two_e", "p41", "utf8", "bad", "pzz"}
EmitVec == PrintT(<<"VEC", ToJson([raw |-> raw, ok |-> Norm(raw).ok, segs |-> Norm(raw).segs])>>)
=============================================================================
