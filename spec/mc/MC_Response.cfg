SPECIFICATION Spec
INVARIANT OverrideRule
INVARIANT StatusRule
INVARIANT NoBodyRule
INVARIANT ErrorRule
INVARIANT StatusSetsRule
INVARIANT EmitVec
CHECK_DEADLOCK FALSE
