------------------------------- MODULE Response -------------------------------
(***************************************************************************)
(* Typed success responses (C12) and the error contract (C13).             *)
(* Code anchors: dropshot/src/handler.rs HttpCodedResponse::for_object,     *)
(* HttpResponseContent::to_response, Empty, HttpResponseHeaders::to_result, *)
(* http_response_found / see_other / temporary_redirect; error.rs HttpError *)
(* constructors and into_response; error_status_code.rs from_u16 /         *)
(* from_status; server.rs http_request_handle (request-id stamping).        *)
(*                                                                         *)
(* This module is a table plus two rules (header merge, error rendering).  *)
(* TLC enumerates the case products; the harness instantiates each case    *)
(* with concrete values and executes it against the real types.            *)
(***************************************************************************)
EXTENDS Naturals, Sequences, FiniteSets, TLC

\* ---- success responses --------------------------------------------------------
Kinds == {"ok", "created", "accepted", "deleted", "updated", "found", "see_other", "temporary_redirect"}

StatusOf(k) ==
  CASE k = "ok" -> 200 [] k = "created" -> 201 [] k = "accepted" -> 202
    [] k = "deleted" -> 204 [] k = "updated" -> 204
    [] k = "found" -> 302 [] k = "see_other" -> 303 [] k = "temporary_redirect" -> 307

HasBody(k) == k \in {"ok", "created", "accepted"}
IsRedirect(k) == k \in {"found", "see_other", "temporary_redirect"}

\* Header sets are functions  lower-case name -> value tag.  Declared headers
\* come from the response's typed header struct, explicit ones from
\* headers_mut(); an explicit header overrides a declared one of the same
\* name (names compare case-insensitively: both sides are lower-cased here).
Merge(declared, explicit) ==
  [x \in (DOMAIN declared) \cup (DOMAIN explicit) |->
     IF x \in DOMAIN explicit THEN explicit[x] ELSE declared[x]]

\* value classes of a declared header: sendable or not
DeclClasses == {"ascii", "empty", "utf8", "ctl"}
DeclSendable(c) == c # "ctl"

\* A typed response with declared and explicit headers:
\*   [k |-> "sent", status, body, ctype, headers]  or  [k |-> "error"] (a 5xx HttpError)
Success(kind, declared, declClass, explicit) ==
  IF \E x \in DOMAIN declared : ~DeclSendable(declClass[x]) THEN [k |-> "error"]
  ELSE [k |-> "sent", status |-> StatusOf(kind),
        body |-> IF HasBody(kind) THEN "json" ELSE "empty",
        headers |-> Merge(declared, explicit)]

\* redirects: the location must be a legal header value
LocClasses == {"ascii", "empty", "ctl"}
Redirect(kind, loc) ==
  IF loc = "ctl" THEN [k |-> "error"]
  ELSE [k |-> "sent", status |-> StatusOf(kind), body |-> "empty", location |-> loc]

\* ---- errors ---------------------------------------------------------------------
\* public constructors of HttpError:  status, where the external message comes
\* from ("given" = the caller's message, "canonical" = the status reason
\* phrase), whether the internal message is the caller's private text, and
\* the error code ("given" or the fixed string "Internal")
Ctors == {"for_bad_request", "for_client_error", "for_client_error_with_status",
          "for_internal_error", "for_unavail", "for_not_found"}

CtorStatus(c, given) ==
  CASE c = "for_bad_request" -> 400
    [] c = "for_client_error" -> given
    [] c = "for_client_error_with_status" -> given
    [] c = "for_internal_error" -> 500
    [] c = "for_unavail" -> 503
    [] c = "for_not_found" -> 404
ExternalIs(c) == IF c \in {"for_bad_request", "for_client_error"} THEN "given" ELSE "canonical"
InternalIsPrivate(c) == c \in {"for_internal_error", "for_unavail", "for_not_found"}
CodeIs(c) == IF c = "for_internal_error" THEN "Internal" ELSE "given"

\* rendering: status, body members, headers.  The private (internal) message
\* never appears.
ErrorResponse(c, given, attached) ==
  [status |-> CtorStatus(c, given),
   message |-> ExternalIs(c),
   code |-> CodeIs(c),
   leaks_internal |-> FALSE,
   headers |-> attached,                  \* attached headers, all values, in order
   ctype |-> "application/json",
   request_id |-> "both"]                 \* in the body and as x-request-id, equal

\* ---- status refinement types ----------------------------------------------------
ErrorStatusOk(nn) == nn >= 400 /\ nn <= 599
ClientErrorStatusOk(nn) == nn >= 400 /\ nn <= 499
=============================================================================
