---------------------------- MODULE BodyLimitCore ----------------------------
(***************************************************************************)
(* The reader of a request body with a cap: state and steps only, no       *)
(* bounds and no recursive operators, so that both TLC (through            *)
(* BodyLimit.tla, which extends this module) and tlapm                     *)
(* (proofs/BodyLimitProof.tla) work on the same actions.                   *)
(***************************************************************************)
EXTENDS Naturals, Sequences

VARIABLES cap,         \* the effective limit for this request
          pending,     \* frames not yet read: <<[k |-> "data", n |-> len] | [k |-> "trailers"]>>
          bytesRead,   \* running total of delivered data
          delivered,   \* sequence of delivered chunk lengths
          drained,     \* number of frames consumed by the drain after an overflow
          phase        \* "reading" | "rejected" | "done"

vars == <<cap, pending, bytesRead, delivered, drained, phase>>

Data(n) == [k |-> "data", n |-> n]
Trailers == [k |-> "trailers"]

\* effective limit: the endpoint's own override, else the server default
\* (NoOverride stands for "the endpoint does not override the limit")
NoOverride == 0 - 1
EffCap(override, default) == IF override = NoOverride THEN default ELSE override

\* Core steps on the reader's own state, parametrised by the length of the
\* arriving data frame (the trace specification binds n to the logged length).
FrameN(n) ==
  /\ phase = "reading"
  /\ bytesRead + n <= cap
  /\ delivered' = Append(delivered, n)
  /\ bytesRead' = bytesRead + n
  /\ UNCHANGED <<cap, phase>>

OverflowN(n) ==
  /\ phase = "reading"
  /\ bytesRead + n > cap
  /\ phase' = "rejected"
  /\ UNCHANGED <<cap, bytesRead, delivered>>

\* a data frame that fits is delivered to the consumer
Frame ==
  /\ pending # <<>> /\ Head(pending).k = "data"
  /\ FrameN(Head(pending).n)
  /\ pending' = Tail(pending)
  /\ UNCHANGED drained

\* trailer frames are skipped
SkipTrailers ==
  /\ phase = "reading" /\ pending # <<>> /\ Head(pending).k = "trailers"
  /\ pending' = Tail(pending)
  /\ UNCHANGED <<cap, bytesRead, delivered, drained, phase>>

\* a data frame that does not fit: drain the rest, refuse
Overflow ==
  /\ pending # <<>> /\ Head(pending).k = "data"
  /\ OverflowN(Head(pending).n)
  /\ drained' = Len(pending) - 1
  /\ pending' = <<>>

End ==
  /\ phase = "reading" /\ pending = <<>>
  /\ phase' = "done"
  /\ UNCHANGED <<cap, pending, bytesRead, delivered, drained>>

Next == Frame \/ SkipTrailers \/ Overflow \/ End
=============================================================================
