--------------------------- MODULE VersionsProof ---------------------------
(***************************************************************************)
(* Unbounded companion of MC_Versions (C05): over *all* integers, not the  *)
(* grid TLC enumerates, the transcription of `overlaps_with` agrees with   *)
(* the meaning "the two ranges share a version".  Versions are integers    *)
(* here (a discrete order without end-points); the proof only uses that    *)
(* the order is total and has no least element, which is what the code's   *)
(* ten arms rely on (the witness is always an end-point of one of the      *)
(* ranges, except for until x until, where any version below both works).  *)
(* Checked by tlapm (bin/check C05 --tier thorough).                       *)
(***************************************************************************)
EXTENDS VersionsUnbounded, TLAPS

\* matches means membership
THEOREM MatchesIsMembership ==
  ASSUME NEW r, IsRange(r), NEW v \in Int
  PROVE  M(r, v) <=> InR(r, v)
BY DEF IsRange, Kinds, M, InR

\* a non-degenerate range is never empty
LEMMA Witness ==
  ASSUME NEW r, IsRange(r)
  PROVE  \E v \in Int : InR(r, v)
<1>1. CASE r.k = "all" BY <1>1, 0 \in Int DEF InR
<1>2. CASE r.k = "from" BY <1>2, r.a \in Int DEF InR, IsRange
<1>3. CASE r.k = "until" BY <1>3, r.b - 1 \in Int, r.b - 1 < r.b DEF InR, IsRange
<1>4. CASE r.k = "fu" BY <1>4, r.a \in Int DEF InR, IsRange
<1> QED BY <1>1, <1>2, <1>3, <1>4 DEF IsRange, Kinds

THEOREM OverlapIffShared ==
  ASSUME NEW r1, IsRange(r1), NEW r2, IsRange(r2)
  PROVE  Ov(r1, r2) <=> Shared(r1, r2)
<1> USE DEF IsRange, Kinds
<1>a. CASE r1.k = "all"
  <2>1. Ov(r1, r2) BY <1>a DEF Ov
  <2>2. PICK v \in Int : InR(r2, v) BY Witness
  <2>3. InR(r1, v) BY <1>a DEF InR
  <2> QED BY <2>1, <2>2, <2>3 DEF Shared
<1>b. CASE r1.k # "all" /\ r2.k = "all"
  <2>1. Ov(r1, r2) BY <1>b DEF Ov
  <2>2. PICK v \in Int : InR(r1, v) BY Witness
  <2>3. InR(r2, v) BY <1>b DEF InR
  <2> QED BY <2>1, <2>2, <2>3 DEF Shared
<1>c. CASE r1.k = "from" /\ r2.k = "from"
  <2>1. Ov(r1, r2) BY <1>c DEF Ov
  <2>2. InR(r1, Max(r1.a, r2.a)) /\ InR(r2, Max(r1.a, r2.a)) /\ Max(r1.a, r2.a) \in Int BY <1>c DEF InR, Max
  <2> QED BY <2>1, <2>2 DEF Shared
<1>d. CASE r1.k = "until" /\ r2.k = "until"
  <2>1. Ov(r1, r2) BY <1>d DEF Ov
  <2> DEFINE w == (IF r1.b <= r2.b THEN r1.b ELSE r2.b) - 1
  <2>2. w \in Int /\ InR(r1, w) /\ InR(r2, w) BY <1>d DEF InR
  <2> QED BY <2>1, <2>2 DEF Shared
<1>e. CASE r1.k = "from" /\ r2.k = "until"
  <2>1. Ov(r1, r2) <=> r1.a < r2.b BY <1>e DEF Ov, M
  <2>2. Shared(r1, r2) <=> r1.a < r2.b
    <3>1. ASSUME r1.a < r2.b PROVE Shared(r1, r2) BY <3>1, <1>e, r1.a \in Int DEF Shared, InR
    <3>2. ASSUME Shared(r1, r2) PROVE r1.a < r2.b BY <3>2, <1>e DEF Shared, InR
    <3> QED BY <3>1, <3>2
  <2> QED BY <2>1, <2>2
<1>f. CASE r1.k = "until" /\ r2.k = "from"
  <2>1. Ov(r1, r2) <=> r2.a < r1.b BY <1>f DEF Ov, M
  <2>2. Shared(r1, r2) <=> r2.a < r1.b
    <3>1. ASSUME r2.a < r1.b PROVE Shared(r1, r2) BY <3>1, <1>f, r2.a \in Int DEF Shared, InR
    <3>2. ASSUME Shared(r1, r2) PROVE r2.a < r1.b BY <3>2, <1>f DEF Shared, InR
    <3> QED BY <3>1, <3>2
  <2> QED BY <2>1, <2>2
<1>g. CASE r1.k = "from" /\ r2.k = "fu"
  <2> DEFINE w == Max(r1.a, r2.a)
  <2>0. w \in Int /\ w >= r1.a /\ w >= r2.a BY DEF Max
  <2>1. Ov(r1, r2) <=> M(r2, w) BY <1>g DEF Ov
  <2>2. M(r2, w) <=> InR(r2, w) BY <2>0, MatchesIsMembership
  <2>3. ASSUME InR(r2, w) PROVE Shared(r1, r2) BY <2>3, <2>0, <1>g DEF Shared, InR
  <2>4. ASSUME Shared(r1, r2) PROVE InR(r2, w)
    <3>1. PICK v \in Int : InR(r1, v) /\ InR(r2, v) BY <2>4 DEF Shared
    <3> QED BY <3>1, <1>g DEF InR, Max
  <2> QED BY <2>1, <2>2, <2>3, <2>4
<1>h. CASE r1.k = "fu" /\ r2.k = "from"
  <2> DEFINE w == Max(r2.a, r1.a)
  <2>0. w \in Int /\ w >= r1.a /\ w >= r2.a BY DEF Max
  <2>1. Ov(r1, r2) <=> M(r1, w) BY <1>h DEF Ov
  <2>2. M(r1, w) <=> InR(r1, w) BY <2>0, MatchesIsMembership
  <2>3. ASSUME InR(r1, w) PROVE Shared(r1, r2) BY <2>3, <2>0, <1>h DEF Shared, InR
  <2>4. ASSUME Shared(r1, r2) PROVE InR(r1, w)
    <3>1. PICK v \in Int : InR(r1, v) /\ InR(r2, v) BY <2>4 DEF Shared
    <3> QED BY <3>1, <1>h DEF InR, Max
  <2> QED BY <2>1, <2>2, <2>3, <2>4
<1>i. CASE r1.k = "until" /\ r2.k = "fu"
  <2>1. Ov(r1, r2) <=> r2.a < r1.b BY <1>i DEF Ov, M
  <2>2. ASSUME r2.a < r1.b PROVE Shared(r1, r2) BY <2>2, <1>i, r2.a \in Int DEF Shared, InR
  <2>3. ASSUME Shared(r1, r2) PROVE r2.a < r1.b BY <2>3, <1>i DEF Shared, InR
  <2> QED BY <2>1, <2>2, <2>3
<1>j. CASE r1.k = "fu" /\ r2.k = "until"
  <2>1. Ov(r1, r2) <=> r1.a < r2.b BY <1>j DEF Ov, M
  <2>2. ASSUME r1.a < r2.b PROVE Shared(r1, r2) BY <2>2, <1>j, r1.a \in Int DEF Shared, InR
  <2>3. ASSUME Shared(r1, r2) PROVE r1.a < r2.b BY <2>3, <1>j DEF Shared, InR
  <2> QED BY <2>1, <2>2, <2>3
<1>k. CASE r1.k = "fu" /\ r2.k = "fu"
  <2>1. Ov(r1, r2) <=> (InR(r1, r2.a) \/ InR(r2, r1.a)) BY <1>k, MatchesIsMembership DEF Ov
  <2>2. ASSUME InR(r1, r2.a) \/ InR(r2, r1.a) PROVE Shared(r1, r2) BY <2>2, <1>k DEF Shared, InR
  <2>3. ASSUME Shared(r1, r2) PROVE InR(r1, r2.a) \/ InR(r2, r1.a)
    <3>1. PICK v \in Int : InR(r1, v) /\ InR(r2, v) BY <2>3 DEF Shared
    <3> QED BY <3>1, <1>k DEF InR
  <2> QED BY <2>1, <2>2, <2>3
<1> QED BY <1>a, <1>b, <1>c, <1>d, <1>e, <1>f, <1>g, <1>h, <1>i, <1>j, <1>k
=============================================================================
