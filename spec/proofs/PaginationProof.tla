--------------------------- MODULE PaginationProof ---------------------------
(***************************************************************************)
(* Unbounded companion of MC_Pagination (C15).  TLC checks every scan for  *)
(* n <= 9 (14); here tlapm proves, for every collection size, every limit  *)
(* parameter and every pair of server constants >= 1, about the same       *)
(* actions (EXTENDS PaginationCore):                                       *)
(*   - what has been returned so far is always a prefix 1..pos of the      *)
(*     collection (pos <= n), and a finished scan has returned all of it;  *)
(*   - every fetched page is the contiguous block pos+1 .. pos+count, no   *)
(*     larger than the effective limit, with a token iff it is non-empty   *)
(*     -- so the pages partition 1..n in order, each item exactly once;    *)
(*   - every fetch strictly decreases (n - pos) + [scan still open], so a  *)
(*     scan ends after at most n + 1 fetches.                              *)
(***************************************************************************)
EXTENDS PaginationCore, TLAPS

ASSUME Consts == /\ MaxItems \in Nat /\ MaxItems >= 1
                 /\ DefItems \in Nat /\ DefItems >= 1

GInit == n \in Nat /\ lim \in Nat /\ pos = 0 /\ pages = <<>> /\ open = TRUE

Inv == /\ n \in Nat /\ lim \in Nat /\ pos \in Nat /\ open \in BOOLEAN
       /\ pos <= n
       /\ ~open => pos = n

Variant == (n - pos) + (IF open THEN 1 ELSE 0)

LEMMA EffLimitPositive == ASSUME NEW p \in Nat PROVE EffLimit(p) \in Nat /\ EffLimit(p) >= 1
BY Consts DEF EffLimit, Min

THEOREM InitInv == GInit => Inv
BY DEF GInit, Inv

\* the page fetched at position pos
LEMMA PageShape ==
  ASSUME Inv
  PROVE  LET pg == NextPageOf(n, lim, pos) IN
         /\ pg.count \in Nat /\ pg.count <= EffLimit(lim) /\ pg.count <= n - pos
         /\ pg.token = (pg.count > 0)
         /\ pg.count > 0 => pg.first = pos + 1 /\ pg.last = pos + pg.count
         /\ (pos < n) => pg.count >= 1
         /\ (pos = n) => pg.count = 0
<1>1. EffLimit(lim) \in Nat /\ EffLimit(lim) >= 1 BY EffLimitPositive DEF Inv
<1>2. n - pos \in Nat BY DEF Inv
<1> QED BY <1>1, <1>2 DEF NextPageOf, Min, Inv

THEOREM StepInv == Inv /\ [ScanNext]_svars => Inv'
<1> SUFFICES ASSUME Inv, [ScanNext]_svars PROVE Inv' OBVIOUS
<1>1. CASE ScanNext
  <2> DEFINE pg == NextPageOf(n, lim, pos)
  <2>1. pg.count \in Nat /\ pg.count <= n - pos /\ pg.token = (pg.count > 0) /\ ((pos = n) => pg.count = 0) /\ ((pos < n) => pg.count >= 1)
    BY PageShape
  <2>2. pos' = pos + pg.count /\ open' = pg.token /\ n' = n /\ lim' = lim BY <1>1 DEF ScanNext, Fetch
  <2> QED BY <2>1, <2>2 DEF Inv
<1>2. CASE UNCHANGED svars BY <1>2 DEF svars, Inv
<1> QED BY <1>1, <1>2

THEOREM PrefixAlways == GInit /\ [][ScanNext]_svars => []Inv
BY InitInv, StepInv, PTL

\* C15: each page is the next contiguous block, within the limit, token iff non-empty
THEOREM PagesPartition ==
  ASSUME Inv, ScanNext
  PROVE  LET pg == NextPageOf(n, lim, pos) IN
         /\ pg.count <= EffLimit(lim)
         /\ pg.token = (pg.count > 0)
         /\ pg.count > 0 => pg.first = pos + 1 /\ pg.last = pos'
         /\ pos' = pos + pg.count
         /\ open' = pg.token
<1>1. pos' = pos + NextPageOf(n, lim, pos).count /\ open' = NextPageOf(n, lim, pos).token BY DEF ScanNext, Fetch
<1> QED BY <1>1, PageShape

\* C15: the scan terminates -- every fetch strictly decreases the variant
THEOREM FetchDecreasesVariant ==
  ASSUME Inv, ScanNext
  PROVE  Variant' < Variant /\ Variant \in Nat /\ Variant' \in Nat
<1> DEFINE pg == NextPageOf(n, lim, pos)
<1>0. open BY DEF ScanNext, Fetch
<1>1. pg.count \in Nat /\ pg.count <= n - pos /\ pg.token = (pg.count > 0) /\ ((pos = n) => pg.count = 0) /\ ((pos < n) => pg.count >= 1)
  BY PageShape
<1>2. pos' = pos + pg.count /\ open' = pg.token /\ n' = n BY DEF ScanNext, Fetch
<1> QED BY <1>0, <1>1, <1>2 DEF Variant, Inv
=============================================================================
