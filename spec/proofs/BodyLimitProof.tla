--------------------------- MODULE BodyLimitProof ---------------------------
(***************************************************************************)
(* Unbounded companion of MC_BodyLimit (C11).  TLC enumerates every frame  *)
(* sequence up to a total of 6-8 bytes for caps 0..7; here tlapm proves,   *)
(* for *every* cap, every number of frames and every frame length, that    *)
(* the reader of BodyLimit.tla never has delivered more than the cap and   *)
(* never delivers anything once it has refused the body.                   *)
(* The statement is about BodyLimit.tla's own actions (EXTENDS), started   *)
(* from an initial condition without the model-checking bounds.            *)
(***************************************************************************)
EXTENDS BodyLimitCore, TLAPS

\* any cap, any pending frames at all
GInit == /\ cap \in Nat
         /\ bytesRead = 0 /\ delivered = <<>> /\ drained = 0 /\ phase = "reading"

GSpec == GInit /\ [][Next]_vars

\* delivered so far never exceeds the cap; the cap itself never changes type
Inv == cap \in Nat /\ bytesRead <= cap

THEOREM InitInv == GInit => Inv
BY DEF GInit, Inv

THEOREM StepInv == Inv /\ [Next]_vars => Inv'
<1> SUFFICES ASSUME Inv, [Next]_vars PROVE Inv' OBVIOUS
<1>1. CASE Frame BY <1>1 DEF Frame, FrameN, Inv
<1>2. CASE SkipTrailers BY <1>2 DEF SkipTrailers, Inv
<1>3. CASE Overflow BY <1>3 DEF Overflow, OverflowN, Inv
<1>4. CASE End BY <1>4 DEF End, Inv
<1>5. CASE UNCHANGED vars BY <1>5 DEF vars, Inv
<1> QED BY <1>1, <1>2, <1>3, <1>4, <1>5 DEF Next

THEOREM NeverOverCapUnbounded == GSpec => []Inv
BY InitInv, StepInv, PTL DEF GSpec

\* nothing is delivered after a refusal: once rejected, the delivered sequence is frozen
THEOREM FrozenAfterRefusal ==
  ASSUME phase = "rejected", [Next]_vars
  PROVE  delivered' = delivered /\ bytesRead' = bytesRead /\ phase' = "rejected"
BY DEF Next, Frame, FrameN, SkipTrailers, Overflow, OverflowN, End, vars
=============================================================================
