"""C03 (PathNorm.tla) and C05 (Versions.tla): exhaustive enumeration by TLC,
every enumerated case replayed through the real code."""
import json
import time

import vlib


def _replay_findings(findings, results, prop, name, note):
    nm = 0
    for r in results:
        for mm in r.get("mismatches", []):
            if mm.get("prop") == prop:
                nm += 1
                findings.add({"engine": "replay", "kind": mm.get("what"), "shape": mm.get("shape", "other")},
                             {"config": name, "mismatch": mm, "vector": json.loads(r["_vector"]),
                              "instantiation": r.get("inst") or r.get("wire"), "note": note})
    return nm


def check_c03(tier):
    t0 = time.time()
    vlib.build_harness()
    findings = vlib.Findings("C03")
    maxlen = 4 if tier == "quick" else 5
    cfgname = "MC_PathNorm_run.cfg"
    cfg = "\n".join([
        "SPECIFICATION Spec", "CONSTANTS", "  Tokens <- AllTokens", "  MaxLen = %d" % maxlen,
        "INVARIANT SlashInsensitive", "INVARIANT SegmentCount", "INVARIANT NoUnsafeSegment",
        "INVARIANT DecodedOnce", "INVARIANT EmitVec", "CHECK_DEADLOCK FALSE", ""])
    res = vlib.run_tlc("C03-pathnorm", "MC_PathNorm.tla", cfgname, workers=12, timeout=3000,
                       extra_files={cfgname: cfg}, heap="12g", coverage=False)
    vlib.tlc_ok(res, "pathnorm")
    if res.violated:
        findings.add({"engine": "pathnorm", "kind": "design-theorem:" + str(res.violated), "shape": "other"},
                     {"tlc_trace": res.trace[-4000:],
                      "note": "a design-level theorem of PathNorm.tla fails (specification error or changed spec)"})
    results = vlib.run_replay("replay_pathnorm", res.vectors_path)
    nm = _replay_findings(findings, results, "C03", "pathnorm",
                          "the real lookup_route disagrees with PathNorm.tla's Norm on this raw path")
    refused = sum(1 for r in results if not json.loads(r["_vector"])["ok"])
    samples = [{"raw_tokens": json.loads(r["_vector"])["raw"], "wire": r.get("wire"),
                "expected_ok": json.loads(r["_vector"])["ok"]}
               for r in results[len(results) // 3: len(results) // 3 + 3]]
    rc = findings.report()
    vlib.write_evidence(
        "C03", tier, "model_checking",
        {"states": res.distinct, "transitions": res.generated,
         "traces_validated_against_impl": len(results), "samples": samples, "exhaustive": True,
         "max_raw_path_tokens": maxlen, "token_alphabet": 13, "refused_paths": refused,
         "replay_mismatches": nm,
         "rule": "every raw path over the 13-token alphabet up to MaxLen tokens is one TLC state; the four design theorems "
                 "(slash insensitivity, segment count, no unsafe segment, single decoding) are invariants; each raw path is "
                 "spelled concretely (random equivalent spellings per token) and routed by the real lookup_route on a "
                 "root-wildcard router and a single-variable router"},
        ["percent-decoding of individual bytes is exercised through a finite token alphabet (encoded dot in both hex "
         "cases, encoded slash, double encoding, ASCII, multi-byte UTF-8, invalid UTF-8, malformed escape)",
         "lookup_route is called directly; hyper's own request-target handling is covered by the live-server checks"],
        time.time() - t0, len(findings.violations))
    return rc


def check_c05(tier):
    t0 = time.time()
    vlib.build_harness()
    findings = vlib.Findings("C05")
    thorough = tier != "quick"
    cfgname = "MC_Versions_run.cfg"
    ends = "{2, 4, 6}" if not thorough else "{2, 4, 6, 8}"
    probes = "{1, 2, 3, 4, 5, 6, 7}" if not thorough else "{1, 2, 3, 4, 5, 6, 7, 8, 9}"
    cfg = "\n".join([
        "SPECIFICATION Spec", "CONSTANTS", "  EndPoints = " + ends, "  Probes = " + probes,
        "  MaxSupported = 4",
        "INVARIANT RangeSemantics", "INVARIANT OverlapIffShared", "INVARIANT HeaderPolicyTotal",
        "INVARIANT SameAsUnbounded", "INVARIANT UnversionedBuildRule", "INVARIANT PolicyRefinesHeader",
        "INVARIANT EmitVec", "CHECK_DEADLOCK FALSE", ""])
    res = vlib.run_tlc("C05-versions", "MC_Versions.tla", cfgname, workers=4, timeout=900,
                       extra_files={cfgname: cfg}, coverage=False)
    vlib.tlc_ok(res, "versions")
    if res.violated:
        findings.add({"engine": "versions", "kind": "invariant:" + str(res.violated), "shape": "other"},
                     {"tlc_trace": res.trace[-4000:],
                      "note": "Versions.tla: the transcription of matches/overlaps_with disagrees with the range semantics"})
    results = vlib.run_replay("replay_versions", res.vectors_path,
                              env_extra={"VERIF_CHAINS": "8" if not thorough else "40"})
    nm = _replay_findings(findings, results, "C05", "versions",
                          "the real ApiEndpointVersions behaviour disagrees with Versions.tla for this pair of ranges")
    samples = [{"r1": json.loads(r["_vector"])["r1"], "r2": json.loads(r["_vector"])["r2"],
                "shared": json.loads(r["_vector"])["shared"], "one_semver_chain": r.get("inst")}
               for r in results[len(results) // 2: len(results) // 2 + 3]]
    live = live_versions(findings, tier)
    proof = vlib.run_tlapm("C05-proof", "VersionsProof.tla", ["VersionsUnbounded.tla"])
    rc = findings.report()
    vlib.write_evidence(
        "C05", tier, "model_checking",
        {"states": res.distinct, "unbounded_proof": proof, "transitions": res.generated,
         "traces_validated_against_impl": len(results) + live.get("requests", 0), "samples": samples,
         "exhaustive": True, "replay_mismatches": nm, "live_header_policy": live,
         "rule": "every ordered pair of ranges over the end-point grid is one TLC state (membership of every probe, "
                 "overlap = shared version, symmetric); each pair is replayed with several random semver chains "
                 "(pre-releases mixed in) through register / lookup_route / openapi in both registration orders"},
        ["the integer grid represents the dense semver order (argument in MC_Versions.tla); independently, tlapm proves "
         "OverlapIffShared and MatchesIsMembership over all integers (spec/proofs/VersionsProof.tla) and TLC checks that "
         "the proof's operators coincide with Versions.tla's on the grid (SameAsUnbounded)",
         "generated versions carry no build metadata (DESIGN section 8 rule 3)",
         "the harness orders versions with its own semver-precedence comparator"],
        time.time() - t0, len(findings.violations))
    return rc


def live_versions(findings, tier):
    """Header policy against a live versioned server."""
    cov = vlib.live_versioned("C05", tier, findings)
    cov["requests"] = cov["live_requests"]
    return cov


def check_c11(tier):
    import os
    import subprocess
    t0 = time.time()
    vlib.build_harness()
    findings = vlib.Findings("C11")
    thorough = tier != "quick"
    # ---- (M) + (R): all frame sequences, replayed into a real StreamingBody ----
    cfgname = "MC_BodyLimit_run.cfg"
    cfg = "\n".join([
        "SPECIFICATION MCSpec", "CONSTANTS",
        "  MaxCap = %d" % (5 if not thorough else 7), "  MaxTotal = %d" % (6 if not thorough else 8),
        "  MaxFrames = %d" % (4 if not thorough else 5),
        "INVARIANT NeverOverCap", "INVARIANT Verdict", "INVARIANT EmitVec", "PROPERTY Terminates",
        "CHECK_DEADLOCK FALSE", ""])
    res = vlib.run_tlc("C11-bodylimit", "MC_BodyLimit.tla", cfgname, workers=12, timeout=3000,
                       extra_files={cfgname: cfg}, heap="12g", coverage=False)
    vlib.tlc_ok(res, "bodylimit")
    if res.violated:
        findings.add({"engine": "bodylimit-model", "kind": "invariant:" + str(res.violated), "shape": "other"},
                     {"tlc_trace": res.trace[-4000:]})
    results = vlib.run_replay("replay_bodylimit", res.vectors_path)
    nm = _replay_findings(findings, results, "C11", "bodylimit",
                          "the real StreamingBody disagrees with BodyLimit.tla on this frame sequence")
    samples = [{"vector": json.loads(r["_vector"]), "instantiation": r.get("inst")}
               for r in results[len(results) // 2: len(results) // 2 + 2]]
    # ---- (T): wire level, every extractor x limit configuration x size x framing ----
    outdir = os.path.join(vlib.WORK, "body")
    os.makedirs(outdir, exist_ok=True)
    path = os.path.join(outdir, "trace.ndjson")
    rounds = 2 if not thorough else 12
    p = subprocess.run([vlib.harness_bin("drive_body"), str(rounds), path],
                       env=dict(os.environ, VERIF_SEED=str(vlib.seed())),
                       stdout=subprocess.PIPE, stderr=subprocess.PIPE, text=True, timeout=3000)
    if p.returncode != 0:
        raise vlib.ToolError("drive_body failed: %s" % p.stderr[-2000:])
    neps, nev, rejects, states = vlib.validate_trace_episodes(
        "C11-trace", "TraceBodyLimit.tla", "TraceBodyLimit.cfg", path, max_rejects=400)
    for payload, cnt in vlib.validate_trace_episodes.known.items():
        k = json.loads(payload)
        for _ in range(cnt):
            st = findings.add({"engine": "bodylimit-trace", "kind": k["kind"], "shape": k["shape"]}, {})
            if st != "known":
                raise vlib.ToolError("spec says known but known_findings.json does not: %s" % payload)
    for rj in rejects:
        hdr = rj["episode_header"]
        ev = rj["event"]
        over = hdr.get("total", 0) > hdr.get("cap", 0)
        accepted = (ev.get("ev") == "client_recv" and 200 <= ev.get("status", 0) <= 299) or \
                   (ev.get("ev") == "handler_body" and ev.get("seen", 0) > hdr.get("cap", 0))
        kind = "over-cap-accepted" if over and accepted else \
            (rj["invariant"] or "unexplained:" + str(ev.get("ev")))
        findings.add({"engine": "bodylimit-trace", "kind": kind, "shape": hdr.get("kind", "?")},
                     {"request": hdr, "rejected_event": ev, "state_before": rj["state_before"],
                      "episode_events": rj["episode"],
                      "note": "no behaviour of BodyLimit.tla explains what the real server did with this body"})
    proof = vlib.run_tlapm("C11-proof", "BodyLimitProof.tla", ["BodyLimitCore.tla"],
                           theorems=["NeverOverCapUnbounded: for every cap and every frame sequence the reader never has "
                                     "delivered more than the cap", "FrozenAfterRefusal"])
    rc = findings.report()
    vlib.write_evidence(
        "C11", tier, "model_checking",
        {"unbounded_proof": proof, "states": res.distinct + states, "transitions": res.generated + states,
         "traces_validated_against_impl": len(results) + neps, "samples": samples,
         "frame_sequences_replayed": len(results), "replay_mismatches": nm,
         "wire_requests_validated": neps, "wire_events": nev, "wire_rejections": len(rejects),
         "exhaustive": True,
         "rule": "every frame sequence (data frames incl. empty ones, trailers) with total <= MaxTotal for every cap "
                 "0..MaxCap is one behaviour of BodyLimit.tla, replayed frame by frame into a real StreamingBody "
                 "(lengths scaled by a random unit); at wire level every extractor x {server default, smaller, larger "
                 "override} x sizes {0,1,cap/2,cap-1,cap,cap+1,cap+k,2cap,3cap or 64cap} x {content-length, chunked, "
                 "chunked with extensions and trailers} is one trace episode validated by TraceBodyLimit.tla"},
        ["hyper decides the frame boundaries at wire level; the body_frame hook logs the frames actually seen",
         "one request at a time per server so that body_frame events can be attributed"],
        time.time() - t0, len(findings.violations))
    return rc


def _pagination(prop, tier):
    import os
    import subprocess
    t0 = time.time()
    vlib.build_harness()
    findings = vlib.Findings(prop)
    thorough = tier != "quick"
    cfgname = "MC_Pagination_run.cfg"
    cfg = "\n".join([
        "SPECIFICATION ScanSpec", "CONSTANTS", "  MaxItems = %d" % (3 if not thorough else 4),
        "  DefItems = 2", "  MaxN = %d" % (9 if not thorough else 14),
        "  LimitParams = {%s}" % ", ".join(str(i) for i in range(0, 6 if not thorough else 8)),
        "INVARIANT PageBounds", "INVARIANT InOrderOnce", "INVARIANT Complete", "INVARIANT ScanLength",
        "INVARIANT CasesTotal", "INVARIANT TokenWins", "INVARIANT BadAlwaysRejected",
        "INVARIANT IssuedIsAcceptable", "INVARIANT EmitCases", "PROPERTY ScanTerminates",
        "CHECK_DEADLOCK FALSE", ""])
    res = vlib.run_tlc(prop + "-pagination", "MC_Pagination.tla", cfgname, workers=4, timeout=900,
                       extra_files={cfgname: cfg}, coverage=False)
    vlib.tlc_ok(res, "pagination")
    if res.violated:
        findings.add({"engine": "pagination-model", "kind": "invariant:" + str(res.violated), "shape": "other"},
                     {"tlc_trace": res.trace[-4000:]})
    if res.nvectors != 1:
        raise vlib.ToolError("expected exactly one class table from TLC, got %d" % res.nvectors)
    outdir = os.path.join(vlib.WORK, "pagination-" + prop)
    os.makedirs(outdir, exist_ok=True)
    cases = os.path.join(outdir, "cases.json")
    with open(res.vectors_path) as f, open(cases, "w") as g:
        g.write(f.readline())
    path = os.path.join(outdir, "trace.ndjson")
    p = subprocess.run([vlib.harness_bin("drive_pagination"), tier, cases, path],
                       env=dict(os.environ, VERIF_SEED=str(vlib.seed())),
                       stdout=subprocess.PIPE, stderr=subprocess.PIPE, text=True, timeout=3000)
    if p.returncode != 0:
        raise vlib.ToolError("drive_pagination failed: %s" % p.stderr[-2000:])
    # The episodes that speak about this property are validated first (scans for C15, token / limit cases
    # for C14), so that rejections belonging to the other property cannot use up the rejection budget.
    with open(path) as f:
        eps = vlib.split_episodes([x for x in f.read().split("\n") if x.strip()])
    is_scan = lambda ep: '"kind":"scan"' in ep[0]
    first = [e for e in eps if is_scan(e) == (prop == "C15")]
    second = [e for e in eps if is_scan(e) != (prop == "C15")]
    neps = nev = states = 0
    rejects = []
    for part, group in (("own", first), ("other", second)):
        if not group:
            continue
        ppath = path + "." + part
        with open(ppath, "w") as f:
            f.write("\n".join(x for e in group for x in e) + "\n")
        a, b, c, d = vlib.validate_trace_episodes(
            prop + "-trace-" + part, "TracePagination.tla", "TracePagination.cfg", ppath, max_rejects=12)
        neps, nev, states = neps + a, nev + b, states + d
        rejects += c
    c15_events = {"page", "scan_end", "scan_runaway"}
    other = 0
    for rj in rejects:
        ev = rj["event"].get("ev", "?")
        hdr = rj["episode_header"]
        is_scan = hdr.get("kind") == "scan"
        mine = (prop == "C15") == (ev in c15_events or (is_scan and ev == "handler_page") or
                                   (rj["invariant"] == "ScanInv"))
        if mine:
            findings.add({"engine": "pagination-trace", "kind": rj["invariant"] or ("unexplained:" + ev),
                          "shape": hdr.get("kind", "?")},
                         {"episode": hdr, "rejected_event": rj["event"], "state_before": rj["state_before"],
                          "episode_events": rj["episode"][-12:],
                          "note": "no behaviour of Pagination.tla explains what the real pagination code did"})
        else:
            other += 1
    with open(path) as f:
        counts = {}
        samples = []
        for ln in f:
            if '"ev":"' not in ln:
                continue
            ev = ln.split('"ev":"')[1].split('"')[0]
            counts[ev] = counts.get(ev, 0) + 1
            if ev in ("page", "case", "mutant", "issue") and counts[ev] in (3, 40) and len(samples) < 6:
                samples.append(json.loads(ln))
    proof = vlib.run_tlapm(prop + "-proof", "PaginationProof.tla", ["PaginationCore.tla"],
                           theorems=["PrefixAlways: what a scan has returned is always 1..pos, pos <= n, and a finished scan "
                                     "has returned everything -- for every n, limit and server constants >= 1",
                                     "PagesPartition: each page is the next contiguous block within the effective limit, "
                                     "token iff non-empty", "FetchDecreasesVariant: a scan ends after at most n + 1 fetches"])
    rc = findings.report()
    vlib.write_evidence(
        prop, tier, "model_checking",
        {"states": res.distinct + states, "transitions": res.generated + states, "unbounded_proof": proof,
         "traces_validated_against_impl": neps, "samples": samples, "trace_events": nev,
         "scans": counts.get("scan_end", 0), "pages_fetched": counts.get("page", 0),
         "class_cases_executed": counts.get("case", 0), "tokens_issued_or_refused": counts.get("issue", 0),
         "token_mutants": counts.get("mutant", 0), "rejections_attributed_to_other_property": other,
         "rule": "TLC checks every complete scan for n <= MaxN, every limit parameter and the class table; the live "
                 "paginated endpoint (real constants 10000/100) is scanned end to end for 13 collection sizes x 11 "
                 "limits x 2 orders (one event per page), every cell of the class table is instantiated with concrete "
                 "tokens / limits / scan parameters against the live endpoint and the query deserialiser, tokens are "
                 "issued around the 512-byte bound and mutated at byte level; all events validated by TracePagination.tla"},
        ["the collection and the after-marker query are harness code; dropshot's part is the limit, the token and the "
         "page envelope", "limits above i32::MAX are logged as i32::MAX (TLC integers are 32-bit); any limit above the "
         "server maximum is equivalent in the specification",
         "the class of a mutated token is decided by the harness's own base64/JSON decoder"],
        time.time() - t0, len(findings.violations))
    return rc


def check_c14(tier):
    return _pagination("C14", tier)


def check_c15(tier):
    return _pagination("C15", tier)


def check_c20(tier):
    t0 = time.time()
    vlib.build_harness()
    findings = vlib.Findings("C20")
    cfgname = "MC_WsHandshake_run.cfg"
    cfg = "\n".join(["SPECIFICATION Spec", "CONSTANT Full = %s" % ("FALSE" if tier == "quick" else "TRUE"),
                     "INVARIANT SpellingFree", "INVARIANT OnlyGoodUpgrades", "INVARIANT EmitVec",
                     "CHECK_DEADLOCK FALSE", ""])
    res = vlib.run_tlc("C20-ws", "MC_WsHandshake.tla", cfgname, workers=1, timeout=1200,
                       extra_files={cfgname: cfg}, coverage=False, heap="8g")
    vlib.tlc_ok(res, "ws")
    if res.violated:
        findings.add({"engine": "ws-model", "kind": "invariant:" + str(res.violated), "shape": "other"},
                     {"tlc_trace": res.trace[-3000:]})
    results = vlib.run_replay("replay_ws", res.vectors_path, shards=4)
    nm = _replay_findings(findings, results, "C20", "ws",
                          "the real channel endpoint disagrees with WsHandshake.tla on this handshake")
    good = sum(1 for r in results if json.loads(r["_vector"])["out"]["upgraded"])
    samples = [json.loads(r["_vector"]) for r in results[len(results) // 2: len(results) // 2 + 2]]
    rc = findings.report()
    vlib.write_evidence(
        "C20", tier, "model_checking",
        {"states": res.distinct, "transitions": res.generated, "traces_validated_against_impl": len(results),
         "samples": samples, "evaluations": len(results), "distinct_nontrivial": len(results),
         "handshakes_expected_to_upgrade": good, "replay_mismatches": nm, "exhaustive": True,
         "rule": "TLC enumerates every request of the product (Connection and Upgrade as absent / one line of one or two "
                 "elements / two lines, with case variants and foreign tokens; five separator spellings; version absent/13/"
                 "other; key absent/present) with the RFC 9110 list meaning as oracle; each is sent over raw TCP to a live "
                 "#[channel] endpoint: 101 + Sec-WebSocket-Accept (checked against the harness's own SHA-1) + byte-exact "
                 "echo of random payloads, or a 4xx and no echo"},
        ["SHA-1/base64 of the accept digest are harness code (the specification treats the digest as uninterpreted)",
         "the channel handler is a raw byte echo, so 'bytes flow unmodified' is checked below the WebSocket framing layer"],
        time.time() - t0, len(findings.violations))
    return rc


def check_c18(tier):
    import os
    import subprocess
    t0 = time.time()
    vlib.build_harness()
    findings = vlib.Findings("C18")
    res = vlib.run_tlc("C18-hostile", "Hostile.tla", "MC_Hostile.cfg", workers=2, timeout=600, coverage=True)
    vlib.tlc_ok(res, "hostile")
    if res.violated:
        findings.add({"engine": "hostile-model", "kind": "invariant:" + str(res.violated), "shape": "other"},
                     {"tlc_trace": res.trace[-3000:]})
    outdir = os.path.join(vlib.WORK, "hostile")
    os.makedirs(outdir, exist_ok=True)
    path = os.path.join(outdir, "trace.ndjson")
    p = subprocess.run([vlib.harness_bin("drive_hostile"), tier, path],
                       env=dict(os.environ, VERIF_SEED=str(vlib.seed())),
                       stdout=subprocess.PIPE, stderr=subprocess.PIPE, text=True, timeout=3000)
    if p.returncode != 0:
        raise vlib.ToolError("drive_hostile failed (the driver itself, not the server): %s" % p.stderr[-2000:])
    with open(path) as f:
        lines = [x for x in f.read().split("\n") if x.strip()]
    nfaults = sum(1 for x in lines if '"ev":"fault"' in x)
    nhealth = sum(1 for x in lines if '"ev":"health"' in x)
    kinds = {}
    for x in lines:
        if '"ev":"fault"' in x:
            k = json.loads(x)["kind"]
            kinds[k] = kinds.get(k, 0) + 1
    validated_events = 0
    states = 0
    for it in range(10):
        cur = path + ".v%d" % it
        with open(cur, "w") as f:
            f.write("\n".join(lines) + "\n")
        tr = vlib.run_trace("C18-trace-%d" % it, "TraceHostile.tla", "TraceHostile.cfg", cur)
        os.unlink(cur)
        states += tr.states
        if tr.accepted:
            validated_events = len(lines)
            break
        ev = json.loads(lines[tr.reject_line - 1])
        ctx = [json.loads(x) for x in lines[max(0, tr.reject_line - 8): tr.reject_line + 1]
               if '"ev":"fault' in x or '"ev":"health"' in x]
        findings.add({"engine": "hostile-trace", "kind": "unexplained:" + str(ev.get("ev")),
                      "shape": next((c.get("kind") for c in reversed(ctx) if c.get("ev") == "fault"), "?")},
                     {"rejected_event": ev, "preceding_faults": ctx,
                      "note": "no action of Hostile.tla explains this: the server stopped answering, answered with "
                              "malformed HTTP, or accepted a malformed request"})
        # drop the offending line and continue
        lines = lines[:tr.reject_line - 1] + lines[tr.reject_line:]
    rc = findings.report()
    vlib.write_evidence(
        "C18", tier, "fault_enumeration",
        {"evaluations": nfaults, "distinct_nontrivial": nfaults,
         "rule": "each fault is one faulty connection followed by a health request on a fresh connection; faults: a valid "
                 "request truncated at every byte offset (FIN, and RST), random bytes, byte-level mutations of a valid "
                 "request, oversized heads, illegal header values, broken chunking, short bodies, panicking handlers with "
                 "half-open connections lingering, bursts of connections reset as fast as they are opened (so that some "
                 "are already reset when accept() returns them), and on a TLS server stalled / truncated / garbage / "
                 "plain-HTTP handshakes; distinct = distinct (kind, parameters) faults injected",
         "samples": [json.loads(x) for x in lines if '"ev":"fault"' in x][:3],
         "faults_by_kind": kinds, "health_checks": nhealth, "trace_events_validated": validated_events,
         "tlc_states": res.distinct + states},
        ["syntactic validity of response bytes is decided by the harness's HTTP/1.1 response parser",
         "Hostile.tla is a monitor specification: the fault alphabet and the rules for what may be answered; "
         "it does not model hyper's parser",
         "a server that does not answer a broken request at all (closes, or waits for more input) is acceptable"],
        time.time() - t0, len(findings.violations))
    return rc
