"""C03 (PathNorm.tla) and C05 (Versions.tla): exhaustive enumeration by TLC,
every enumerated case replayed through the real code."""
import json
import time

import vlib


def _replay_findings(findings, results, prop, name, note):
    nm = 0
    for r in results:
        for mm in r.get("mismatches", []):
            if mm.get("prop") == prop:
                nm += 1
                findings.add({"engine": "replay", "kind": mm.get("what"), "shape": mm.get("shape", "other")},
                             {"config": name, "mismatch": mm, "vector": json.loads(r["_vector"]),
                              "instantiation": r.get("inst") or r.get("wire"), "note": note})
    return nm


def check_c03(tier):
    t0 = time.time()
    vlib.build_harness()
    findings = vlib.Findings("C03")
    maxlen = 4 if tier == "quick" else 5
    cfgname = "MC_PathNorm_run.cfg"
    cfg = "\n".join([
        "SPECIFICATION Spec", "CONSTANTS", "  Tokens <- AllTokens", "  MaxLen = %d" % maxlen,
        "INVARIANT SlashInsensitive", "INVARIANT SegmentCount", "INVARIANT NoUnsafeSegment",
        "INVARIANT DecodedOnce", "INVARIANT EmitVec", "CHECK_DEADLOCK FALSE", ""])
    res = vlib.run_tlc("C03-pathnorm", "MC_PathNorm.tla", cfgname, workers=12, timeout=3000,
                       extra_files={cfgname: cfg}, heap="12g", coverage=False)
    vlib.tlc_ok(res, "pathnorm")
    if res.violated:
        findings.add({"engine": "pathnorm", "kind": "design-theorem:" + str(res.violated), "shape": "other"},
                     {"tlc_trace": res.trace[-4000:],
                      "note": "a design-level theorem of PathNorm.tla fails (specification error or changed spec)"})
    results = vlib.run_replay("replay_pathnorm", res.vectors_path)
    nm = _replay_findings(findings, results, "C03", "pathnorm",
                          "the real lookup_route disagrees with PathNorm.tla's Norm on this raw path")
    refused = sum(1 for r in results if not json.loads(r["_vector"])["ok"])
    samples = [{"raw_tokens": json.loads(r["_vector"])["raw"], "wire": r.get("wire"),
                "expected_ok": json.loads(r["_vector"])["ok"]}
               for r in results[len(results) // 3: len(results) // 3 + 3]]
    rc = findings.report()
    vlib.write_evidence(
        "C03", tier, "model_checking",
        {"states": res.distinct, "transitions": res.generated,
         "traces_validated_against_impl": len(results), "samples": samples, "exhaustive": True,
         "max_raw_path_tokens": maxlen, "token_alphabet": 13, "refused_paths": refused,
         "replay_mismatches": nm,
         "rule": "every raw path over the 13-token alphabet up to MaxLen tokens is one TLC state; the four design theorems "
                 "(slash insensitivity, segment count, no unsafe segment, single decoding) are invariants; each raw path is "
                 "spelled concretely (random equivalent spellings per token) and routed by the real lookup_route on a "
                 "root-wildcard router and a single-variable router"},
        ["percent-decoding of individual bytes is exercised through a finite token alphabet (encoded dot in both hex "
         "cases, encoded slash, double encoding, ASCII, multi-byte UTF-8, invalid UTF-8, malformed escape)",
         "lookup_route is called directly; hyper's own request-target handling is covered by the live-server checks"],
        time.time() - t0, len(findings.violations))
    return rc


def check_c05(tier):
    t0 = time.time()
    vlib.build_harness()
    findings = vlib.Findings("C05")
    thorough = tier != "quick"
    cfgname = "MC_Versions_run.cfg"
    ends = "{2, 4, 6}" if not thorough else "{2, 4, 6, 8}"
    probes = "{1, 2, 3, 4, 5, 6, 7}" if not thorough else "{1, 2, 3, 4, 5, 6, 7, 8, 9}"
    cfg = "\n".join([
        "SPECIFICATION Spec", "CONSTANTS", "  EndPoints = " + ends, "  Probes = " + probes,
        "  MaxSupported = 4",
        "INVARIANT RangeSemantics", "INVARIANT OverlapIffShared", "INVARIANT HeaderPolicyTotal",
        "INVARIANT EmitVec", "CHECK_DEADLOCK FALSE", ""])
    res = vlib.run_tlc("C05-versions", "MC_Versions.tla", cfgname, workers=4, timeout=900,
                       extra_files={cfgname: cfg}, coverage=False)
    vlib.tlc_ok(res, "versions")
    if res.violated:
        findings.add({"engine": "versions", "kind": "invariant:" + str(res.violated), "shape": "other"},
                     {"tlc_trace": res.trace[-4000:],
                      "note": "Versions.tla: the transcription of matches/overlaps_with disagrees with the range semantics"})
    results = vlib.run_replay("replay_versions", res.vectors_path,
                              env_extra={"VERIF_CHAINS": "8" if not thorough else "40"})
    nm = _replay_findings(findings, results, "C05", "versions",
                          "the real ApiEndpointVersions behaviour disagrees with Versions.tla for this pair of ranges")
    samples = [{"r1": json.loads(r["_vector"])["r1"], "r2": json.loads(r["_vector"])["r2"],
                "shared": json.loads(r["_vector"])["shared"], "one_semver_chain": r.get("inst")}
               for r in results[len(results) // 2: len(results) // 2 + 3]]
    live = live_versions(findings, tier)
    rc = findings.report()
    vlib.write_evidence(
        "C05", tier, "model_checking",
        {"states": res.distinct, "transitions": res.generated,
         "traces_validated_against_impl": len(results) + live.get("requests", 0), "samples": samples,
         "exhaustive": True, "replay_mismatches": nm, "live_header_policy": live,
         "rule": "every ordered pair of ranges over the end-point grid is one TLC state (membership of every probe, "
                 "overlap = shared version, symmetric); each pair is replayed with several random semver chains "
                 "(pre-releases mixed in) through register / lookup_route / openapi in both registration orders"},
        ["the integer grid represents the dense semver order (argument in MC_Versions.tla)",
         "generated versions carry no build metadata (DESIGN section 8 rule 3)",
         "the harness orders versions with its own semver-precedence comparator"],
        time.time() - t0, len(findings.violations))
    return rc


def live_versions(findings, tier):
    """Header policy against a live versioned server (added with the live-server drivers)."""
    return {}
