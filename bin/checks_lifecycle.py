"""C16, C17 (and the lifecycle clauses of C13, C10): Lifecycle.tla model-checked
by TLC, and traces of the real server validated against it."""
import json
import os
import subprocess
import time

import vlib

INV_PROP = {
    "DetachedNeverCancelled": {"C16"}, "CancelOnlyWhenGone": {"C16"}, "EndsOnce": {"C16"},
    "EndsOnceT": {"C16"}, "NoProgressAfterCancel": {"C16"}, "NoProgressT": {"C16"},
    "CancelOnDisconnect": {"C16"},
    "ShutdownWaits": {"C17"}, "CloseAfterDone": {"C17"}, "StayedGetsResponse": {"C17", "C16"},
    "NoAcceptAfterExit": {"C17"}, "ShutdownCompletes": {"C17"}, "WgCounts": {"C17", "C16"},
    "IdsUnique": {"C13"}, "NoHandlerBeforeReject": {"C10"},
}

EVENT_PROP = {
    "handler_dropped": {"C16"}, "handler_step": {"C16"}, "handler_complete": {"C16"},
    "handler_panic": {"C16"}, "cancel_timeout": {"C16"}, "handler_enter": {"C16", "C10"},
    "handler_call": {"C10", "C16"}, "handler_return": {"C16"},
    "task_exit": {"C16", "C17"}, "spawn": {"C16"}, "req_cancelled": {"C16", "C17"},
    "extract_ok": {"C10", "C16"},
    "close_requested": {"C17"}, "accept_exit": {"C17"}, "graceful_done": {"C17"},
    "waitgroup_done": {"C17", "C16"}, "close_returned": {"C17"}, "waiter_released": {"C17"},
    "connect_after_stop": {"C17"}, "close_timeout": {"C17"}, "waiter_timeout": {"C17"},
    "client_noresp": {"C16", "C17", "C18"}, "client_timeout": {"C16", "C17", "C18"},
    "await_enter_timeout": {"C17", "C16"}, "await_step_timeout": {"C16"}, "await_end_timeout": {"C16"},
    "accept": {"C17"}, "connect_failed": {"C17"},
    "resp_ready": {"C13", "C10", "C16"}, "client_recv": {"C13", "C17", "C16"},
    "req_start": {"C13", "C09"}, "version_ok": {"C10"}, "route_ok": {"C10"},
}


def mc_cfg(mode, conns, reqs, fair, kinds=("full", "head", "body"), resets=True):
    ids = ", ".join("i%d" % i for i in range(1, reqs + 1))
    lines = ["SPECIFICATION %s" % ("FairSpec" if fair else "Spec"), "CONSTANTS",
             "  Conn = {%s}" % ", ".join("c%d" % i for i in range(1, conns + 1)),
             "  Req = {%s}" % ", ".join("r%d" % i for i in range(1, reqs + 1)),
             "  Ids = {%s}" % ids, "  MaxSteps = 1", '  Mode = "%s"' % mode,
             "  SendKinds = {%s}" % ", ".join('"%s"' % k for k in kinds),
             "  Resets = %s" % ("TRUE" if resets else "FALSE")]
    for inv in ("DetachedNeverCancelled", "CancelOnlyWhenGone", "NoHandlerBeforeReject", "ShutdownWaits",
                "CloseAfterDone", "StayedGetsResponse", "IdsUnique", "WgCounts"):
        lines.append("INVARIANT " + inv)
    for pr in ("EndsOnce", "NoProgressAfterCancel", "NoAcceptAfterExit"):
        lines.append("PROPERTY " + pr)
    if fair:
        lines += ["PROPERTY CancelOnDisconnect", "PROPERTY ShutdownCompletes"]
    lines += ["CHECK_DEADLOCK FALSE", ""]
    return "\n".join(lines)


def model_check(prop, tier, findings, cov):
    runs = []
    for mode in ("cancel", "detached"):
        full = ("full",)
        allk = ("full", "head", "body")
        if tier == "quick":
            runs.append((mode, 2, 2, False, full, False))  # safety: 2 connections, 2 requests, whole sends
            runs.append((mode, 1, 2, True, full, False))  # safety + liveness: 1 connection
        else:
            runs.append((mode, 2, 2, False, allk, True))
            runs.append((mode, 1, 2, True, allk, True))
            runs.append((mode, 2, 2, True, full, False))
    for mode, conns, reqs, fair, kinds, resets in runs:
        name = "MC_Lifecycle_%s_%dc%dr%s%s%s.cfg" % (mode, conns, reqs, "_fair" if fair else "",
                                                     "" if len(kinds) == 3 else "_" + "_".join(kinds), "" if resets else "_noreset")
        res = vlib.run_tlc("%s-%s" % (prop, name[:-4]), "MC_Lifecycle.tla", name, workers=12,
                           timeout=3400 if tier == "thorough" else 1200,
                           extra_files={name: mc_cfg(mode, conns, reqs, fair, kinds, resets)}, heap="16g", tags=())
        vlib.tlc_ok(res, name)
        cov["states"] += res.distinct
        cov["transitions"] += res.generated
        cov["model_runs"].append({"config": name, "distinct": res.distinct, "generated": res.generated,
                                  "wall_s": round(res.wall, 1), "liveness": fair,
                                  "actions_never_taken": sorted(a for a, (d, t) in res.coverage.items() if t == 0)})
        if res.violated:
            vname = str(res.violated)
            for inv, props in INV_PROP.items():
                if inv in vname or inv in res.trace[:400]:
                    if prop in props:
                        findings.add({"engine": "lifecycle-model", "kind": "invariant:" + inv, "shape": mode},
                                     {"config": name, "tlc_trace": res.trace[-6000:],
                                      "note": "Lifecycle.tla itself admits a state that breaks the property"})
                    break
            else:
                raise vlib.ToolError("Lifecycle model check failed: %s (see %s)" % (vname, res.out_path))


def drive_and_validate(prop, tier, findings, cov):
    vlib.build_harness()
    episodes = 150 if tier == "quick" else 1200
    chunk = 300
    outdir = os.path.join(vlib.WORK, "lifecycle-" + prop)
    os.makedirs(outdir, exist_ok=True)
    other = 0
    for mode in ("cancel", "detached"):
        done = 0
        part = 0
        while done < episodes:
            n = min(chunk, episodes - done)
            part += 1
            path = os.path.join(outdir, "%s-%d.ndjson" % (mode, part))
            env = dict(os.environ, VERIF_SEED=str(vlib.seed() * 100 + part))
            p = subprocess.run([vlib.harness_bin("drive_lifecycle"), mode, str(n), path], env=env,
                               stdout=subprocess.PIPE, stderr=subprocess.PIPE, text=True, timeout=3000)
            if p.returncode != 0:
                raise vlib.ToolError("drive_lifecycle failed: %s" % p.stderr[-2000:])
            neps, nev, rejects, states = vlib.validate_trace_episodes(
                "%s-trace-%s-%d" % (prop, mode, part), "TraceLifecycle.tla", "TraceLifecycle.cfg", path,
                env_extra={"MODE": mode})
            cov["traces_validated_against_impl"] += neps
            cov["trace_events"] += nev
            cov["states"] += states
            cov["transitions"] += states
            for rj in rejects:
                ev = rj["event"].get("ev", "?")
                props = set()
                if rj["invariant"]:
                    props |= INV_PROP.get(rj["invariant"], set())
                else:
                    props |= EVENT_PROP.get(ev, {"C16", "C17"})
                if prop in props:
                    findings.add({"engine": "lifecycle-trace", "kind": rj["invariant"] or ("unexplained:" + ev),
                                  "shape": mode},
                                 {"mode": mode, "trace_file": path, "rejected_event": rj["event"],
                                  "violated_invariant": rj["invariant"],
                                  "state_before": rj["state_before"], "episode_plan": rj["episode_header"],
                                  "episode_events": rj["episode"],
                                  "note": "no behaviour of Lifecycle.tla explains this recorded execution of the real server"})
                else:
                    other += 1
            if len(cov["samples"]) < 3 and os.path.exists(path):
                with open(path) as f:
                    head = [json.loads(x) for x in f.read().split("\n")[:14] if x.strip()]
                cov["samples"].append({"mode": mode, "first_events": head})
            done += n
        if mode == "cancel" and "binding_demo" not in cov:
            cov["binding_demo"] = binding_demo(prop, os.path.join(outdir, "cancel-1.ndjson"))
    cov["rejections_attributed_to_other_properties"] = other


def binding_demo(prop, path):
    """Show that the trace spec is bound to the trace: drop one hook event and
    corrupt one field; both must be rejected."""
    with open(path) as f:
        lines = [x for x in f.read().split("\n") if x.strip()]
    out = {}
    # keep it small: first 40 episodes
    eps = vlib.split_episodes(lines)[:40]
    lines = [x for e in eps for x in e]
    muts = {}
    for i, ln in enumerate(lines):
        if '"ev":"req_start"' in ln and "drop_req_start_hook" not in muts:
            muts["drop_req_start_hook"] = lines[:i] + lines[i + 1:]
        if '"ev":"resp_ready"' in ln and '"status":200' in ln and "corrupt_status" not in muts:
            muts["corrupt_status"] = lines[:i] + [ln.replace('"status":200', '"status":201')] + lines[i + 1:]
        if '"ev":"graceful_done"' in ln and "waitgroup_done_before_graceful_done" not in muts:
            # the shutdown steps out of order: waitgroup_done is only enabled after graceful_done
            if i + 1 < len(lines) and '"ev":"waitgroup_done"' in lines[i + 1]:
                muts["waitgroup_done_before_graceful_done"] = lines[:i] + [lines[i + 1], ln] + lines[i + 2:]
    for name, ml in muts.items():
        mp = path + "." + name
        with open(mp, "w") as f:
            f.write("\n".join(ml) + "\n")
        res = vlib.run_trace("%s-binding-%s" % (prop, name), "TraceLifecycle.tla", "TraceLifecycle.cfg", mp,
                             env_extra={"MODE": "cancel"})
        out[name] = "rejected" if not res.accepted else "ACCEPTED"
        os.unlink(mp)
        if res.accepted:
            raise vlib.ToolError("binding demonstration failed: mutated trace %s was accepted" % name)
    return out


def run(prop, tier, text_rule):
    t0 = time.time()
    findings = vlib.Findings(prop)
    cov = {"states": 0, "transitions": 0, "traces_validated_against_impl": 0, "trace_events": 0,
           "samples": [], "model_runs": []}
    model_check(prop, tier, findings, cov)
    drive_and_validate(prop, tier, findings, cov)
    cov["rule"] = text_rule
    rc = findings.report()
    vlib.write_evidence(prop, tier, "model_checking", cov,
                        ["events are totally ordered by a sequence number assigned under the event log's lock; driver "
                         "events that cause something are emitted before the cause, observations after",
                         "timeouts of 10 s stand for 'never' (typical latency is milliseconds)",
                         "HTTP/1 connections only in this driver; a panicking handler takes its own HTTP/1 connection down "
                         "(DESIGN section 8 rules 5, 11)",
                         "requests that had not been started when shutdown began may go unanswered (rule 6)"],
                        time.time() - t0, len(findings.violations))
    return rc


def check_c16(tier):
    return run("C16", tier,
               "TLC explores Lifecycle.tla exhaustively (2 connections x 2 requests safety, 1x2 with fairness for the "
               "liveness properties) in both task modes; the real server is driven through seeded random plans "
               "(1-4 requests, shared/pipelined or separate connections, partial sends, disconnect before/after handler "
               "entry/step/completion, handler panics and errors, invalid requests, close() at a random point) and every "
               "recorded trace must be a behaviour of the specification with all invariants holding at every step")


def check_c17(tier):
    return run("C17", tier,
               "as C16; the shutdown actions (close_requested, accept_exit, graceful_done, waitgroup_done, close "
               "returned, waiters released, connect after stop) are enabled only under the specification's guards "
               "(no request future alive, waitgroup empty), so a shutdown that finishes early, a dropped response or a "
               "port that still accepts is an unexplained event")
