"""C16, C17 (and the lifecycle clauses of C13, C10): Lifecycle.tla model-checked
by TLC, and traces of the real server validated against it."""
import json
import re
import os
import subprocess
import time

import vlib

INV_PROP = {
    "DetachedNeverCancelled": {"C16"}, "CancelOnlyWhenGone": {"C16"}, "EndsOnce": {"C16"},
    "EndsOnceT": {"C16"}, "NoProgressAfterCancel": {"C16"}, "NoProgressT": {"C16"},
    "CancelOnDisconnect": {"C16"},
    "ShutdownWaits": {"C17"}, "CloseAfterDone": {"C17"}, "StayedGetsResponse": {"C17", "C16"},
    "NoAcceptAfterExit": {"C17"}, "ShutdownCompletes": {"C17"}, "WgCounts": {"C17", "C16"},
    "IdsUnique": {"C13"}, "NoHandlerBeforeReject": {"C10"},
}

EVENT_PROP = {
    "handler_dropped": {"C16"}, "handler_step": {"C16"}, "handler_complete": {"C16"},
    "handler_panic": {"C16"}, "cancel_timeout": {"C16"}, "handler_enter": {"C16", "C10"},
    "handler_call": {"C10", "C16"}, "handler_return": {"C16"},
    "task_exit": {"C16", "C17"}, "spawn": {"C16"}, "req_cancelled": {"C16", "C17"},
    "extract_ok": {"C10", "C16"},
    "close_requested": {"C17"}, "accept_exit": {"C17"}, "graceful_done": {"C17"},
    "waitgroup_done": {"C17", "C16"}, "close_returned": {"C17"}, "waiter_released": {"C17"},
    "connect_after_stop": {"C17"}, "close_timeout": {"C17"}, "waiter_timeout": {"C17"},
    "client_noresp": {"C16", "C17", "C18"}, "client_timeout": {"C16", "C17", "C18"},
    "await_enter_timeout": {"C17", "C16"}, "await_step_timeout": {"C16"}, "await_end_timeout": {"C16"},
    "accept": {"C17"}, "connect_failed": {"C17"},
    "resp_ready": {"C13", "C10", "C16"}, "client_recv": {"C13", "C17", "C16"},
    "req_start": {"C13", "C09"}, "version_ok": {"C10"}, "route_ok": {"C10"},
}


def mc_cfg(mode, conns, reqs, fair, kinds=("full", "head", "body"), resets=True):
    ids = ", ".join("i%d" % i for i in range(1, reqs + 1))
    lines = ["SPECIFICATION %s" % ("FairSpec" if fair else "Spec"), "CONSTANTS",
             "  Conn = {%s}" % ", ".join("c%d" % i for i in range(1, conns + 1)),
             "  Req = {%s}" % ", ".join("r%d" % i for i in range(1, reqs + 1)),
             "  Ids = {%s}" % ids, "  MaxSteps = 1", '  Mode = "%s"' % mode,
             "  SendKinds = {%s}" % ", ".join('"%s"' % k for k in kinds),
             "  Resets = %s" % ("TRUE" if resets else "FALSE")]
    for inv in ("DetachedNeverCancelled", "CancelOnlyWhenGone", "NoHandlerBeforeReject", "ShutdownWaits",
                "CloseAfterDone", "StayedGetsResponse", "IdsUnique", "WgCounts"):
        lines.append("INVARIANT " + inv)
    for pr in ("EndsOnce", "NoProgressAfterCancel", "NoAcceptAfterExit"):
        lines.append("PROPERTY " + pr)
    if fair:
        lines += ["PROPERTY CancelOnDisconnect", "PROPERTY ShutdownCompletes"]
    lines += ["CHECK_DEADLOCK FALSE", ""]
    return "\n".join(lines)


def model_check(prop, tier, findings, cov):
    runs = []
    for mode in ("cancel", "detached"):
        full = ("full",)
        allk = ("full", "head", "body")
        if tier == "quick":
            runs.append((mode, 2, 2, False, full, False))  # safety: 2 connections, 2 requests, whole sends
            runs.append((mode, 1, 2, True, full, False))  # safety + liveness: 1 connection
        else:
            runs.append((mode, 2, 2, False, allk, True))
            runs.append((mode, 1, 2, True, allk, True))
            runs.append((mode, 2, 2, True, full, False))
    for mode, conns, reqs, fair, kinds, resets in runs:
        name = "MC_Lifecycle_%s_%dc%dr%s%s%s.cfg" % (mode, conns, reqs, "_fair" if fair else "",
                                                     "" if len(kinds) == 3 else "_" + "_".join(kinds), "" if resets else "_noreset")
        res = vlib.run_tlc("%s-%s" % (prop, name[:-4]), "MC_Lifecycle.tla", name, workers=12,
                           timeout=3400 if tier == "thorough" else 1200,
                           extra_files={name: mc_cfg(mode, conns, reqs, fair, kinds, resets)}, heap="16g", tags=(),
                           memo=True)
        vlib.tlc_ok(res, name)
        cov["states"] += res.distinct
        cov["transitions"] += res.generated
        cov["model_runs"].append({"config": name, "distinct": res.distinct, "generated": res.generated,
                                  "wall_s": round(res.wall, 1), "liveness": fair,
                                  "reused_identical_run_of": res.memoised,
                                  "actions_never_taken": sorted(a for a, (d, t) in res.coverage.items() if t == 0)})
        if res.violated:
            vname = str(res.violated)
            for inv, props in INV_PROP.items():
                if inv in vname or inv in res.trace[:400]:
                    if prop in props:
                        findings.add({"engine": "lifecycle-model", "kind": "invariant:" + inv, "shape": mode},
                                     {"config": name, "tlc_trace": res.trace[-6000:],
                                      "note": "Lifecycle.tla itself admits a state that breaks the property"})
                    break
            else:
                raise vlib.ToolError("Lifecycle model check failed: %s (see %s)" % (vname, res.out_path))



# ---------------------------------------------------------------------------
# spec -> implementation: schedules derived from behaviours of Lifecycle.tla
# ---------------------------------------------------------------------------
def plan_cfg(mode, nreq, min_before_close):
    return "\n".join([
        "SPECIFICATION PlanSpec", "CONSTANTS",
        '  Conn = {"c0", "c1"}',
        "  Req = {%s}" % ", ".join('"r%d"' % i for i in range(nreq)),
        "  Ids = {%s}" % ", ".join('"i%d"' % i for i in range(nreq)),
        "  MaxSteps = 1", '  Mode = "%s"' % mode,
        '  SendKinds = {"full", "head", "body"}', "  Resets = TRUE",
        "  MinBeforeClose = %d" % min_before_close,
        "INVARIANT EmitPlan",
        "INVARIANT DetachedNeverCancelled", "INVARIANT CancelOnlyWhenGone", "INVARIANT NoHandlerBeforeReject",
        "INVARIANT ShutdownWaits", "INVARIANT CloseAfterDone", "INVARIANT WgCounts",
        "CHECK_DEADLOCK FALSE", ""])


def schedule_of(beh, rnd, mode):
    """Project one behaviour (list of {act, x, y, z}) onto the steps the driver can enforce.  Returns None when
    the harness cannot realise the behaviour (e.g. concurrent requests on a connection that must be HTTP/1)."""
    reqs = {}   # name -> dict
    order = []  # request names in order of their send
    conns = ["c0", "c1"]
    for a in beh:
        if a["act"] == "ClientSend":
            reqs[a["x"]] = {"conn": conns.index(a["y"]), "partial": a["z"], "acts": []}
            order.append(a["x"])
    for a in beh:
        if a["x"] in reqs:
            reqs[a["x"]]["acts"].append((a["act"], a["y"]))
    idx = {r: i for i, r in enumerate(order)}
    # the kind of each request, from what happens to it in the behaviour
    for r, q in reqs.items():
        acts = [x for x, _ in q["acts"]]
        ready = [y for x, y in q["acts"] if x == "RespReady"]
        complete = [y for x, y in q["acts"] if x == "HandlerComplete"]
        if "HandlerPanic" in acts:
            kind = "panic"
        elif complete == ["500"]:
            kind = "err"
        elif "ExtractOk" in acts or "HandlerEnter" in acts:
            kind = rnd.choice(["gate", "gatedrop", "relay", "body"])
        elif ready and ready[0] == "400":
            kind = rnd.choice(["badquery", "badbody"]) if "RouteOk" in acts else rnd.choice(["notfound", "badpath"])
        elif ready:
            return None
        else:
            kind = rnd.choice(["gate", "gatedrop", "body", "err", "badquery", "notfound"])
        if q["partial"] == "body":
            # only requests with a body can be sent with the body incomplete
            if kind in ("gate", "gatedrop", "relay"):
                kind = "body"
            elif kind == "badquery":
                kind = "badbody"
            elif kind not in ("body", "badbody"):
                return None
        q["kind"] = kind
    # HTTP/1 or HTTP/2 per connection
    need_h1, need_h2 = set(), set()
    for r, q in reqs.items():
        if q["partial"] != "full":
            need_h1.add(q["conn"])
        if any(x == "ClientReset" for x, _ in q["acts"]):
            need_h2.add(q["conn"])
    open_on = {0: set(), 1: set()}
    sent_full = {}
    for a in beh:
        r = a["x"]
        if a["act"] == "ClientSend":
            c = reqs[r]["conn"]
            if open_on[c]:
                need_h2.add(c)
            open_on[c].add(r)
            sent_full[r] = a["z"] == "full"
        elif a["act"] == "ClientFinish":
            sent_full[r] = True
        elif a["act"] in ("ClientRecv", "ClientNoResponse") and r in reqs:
            open_on[reqs[r]["conn"]].discard(r)
        elif a["act"] in ("ExtractOk", "HandlerEnter") and r in reqs and not sent_full.get(r) \
                and reqs[r]["kind"] in ("body", "badbody"):
            return None   # a typed body extractor cannot finish before the body has arrived
        elif a["act"] == "RespReady" and r in reqs and not sent_full.get(r) and reqs[r]["kind"] == "badbody":
            return None
    if need_h1 & need_h2:
        return None
    conn_h2 = [(c in need_h2) or (c not in need_h1 and rnd.random() < 0.3) for c in (0, 1)]
    # steps
    plan = []
    closed = set()      # connections the client has closed
    resetted = set()
    rel1, rel2 = set(), set()
    unsync = set()      # requests whose handler the driver cannot wait for (see below)

    def gone(r):
        return r in resetted or reqs[r]["conn"] in closed

    for a in beh:
        act, r = a["act"], a["x"]
        i = idx.get(r, 0)
        # A step of the server or the handler that the behaviour places after the client has gone away cannot
        # be waited for: the real server may notice the departure first.  (In detached mode a handler that
        # had entered before keeps running, so it can still be waited for.)
        if act in ("HandlerEnter", "HandlerStep", "HandlerComplete", "HandlerPanic", "HandlerDropped") and r in reqs:
            if act == "HandlerEnter" and gone(r):
                unsync.add(r)
            elif gone(r) and mode == "cancel" and act != "HandlerDropped":
                unsync.add(r)
            if r in unsync:
                if act in ("HandlerStep", "HandlerComplete", "HandlerPanic") and r not in rel1:
                    plan.append(["Release1", i])
                    rel1.add(r)
                if act in ("HandlerComplete", "HandlerPanic") and r not in rel2:
                    plan.append(["Release2", i])
                    rel2.add(r)
                continue
        if act == "ClientConnect":
            plan.append(["Connect", conns.index(a["x"])])
        elif act == "ClientDisconnect":
            plan.append(["DisconnectConn", conns.index(a["x"])])
            closed.add(conns.index(a["x"]))
        elif act == "ClientSend":
            plan.append(["Send", i])
        elif act == "ClientFinish":
            plan.append(["Finish", i])
        elif act == "ClientReset":
            plan.append(["Reset", i])
            resetted.add(r)
        elif act == "ClientRecv":
            plan.append(["Recv", i])
        elif act == "ClientNoResponse":
            pass   # not enforceable: whether the server picks a request up before shutdown is its own choice
        elif act == "HandlerEnter":
            plan.append(["AwaitEnter", i])
        elif act == "HandlerStep":
            plan += [["Release1", i], ["AwaitStep", i]]
            rel1.add(r)
        elif act in ("HandlerComplete", "HandlerPanic"):
            if r not in rel1:
                plan += [["Release1", i], ["AwaitStep", i]]
                rel1.add(r)
            plan += [["Release2", i], ["AwaitEnd", i]]
            rel2.add(r)
        elif act == "HandlerDropped":
            plan.append(["AwaitCancel", i])
        elif act == "CloseRequested":
            plan.append(["Close", 0])
    return {"reqs": [{"conn": reqs[r]["conn"], "kind": reqs[r]["kind"], "partial": reqs[r]["partial"]} for r in order],
            "conn_h2": conn_h2, "plan": plan}


def spec_schedules(prop, tier, mode, cov):
    """Behaviours of the specification (TLC simulation), projected to driver schedules, de-duplicated."""
    import random
    rnd = random.Random(vlib.seed() * 7 + (0 if mode == "cancel" else 1))
    want = 40 if tier == "quick" else 400
    seen, out = set(), []
    stats = {"behaviours": 0, "unrealisable": 0, "duplicates": 0}
    for nreq, mbc, num in ((1, 0, 150), (2, 0, 300), (2, 14, 400), (3, 22, 400)):
        if tier == "thorough":
            num *= 6
        name = "MC_LifecyclePlan_%s_%dr_%d.cfg" % (mode, nreq, mbc)
        res = vlib.run_tlc("%s-plan-%s-%dr-%d" % (prop, mode, nreq, mbc), "MC_LifecyclePlan.tla", name, workers=1,
                           timeout=600, simulate=num, depth=150, coverage=False,
                           extra_files={name: plan_cfg(mode, nreq, mbc)})
        vlib.tlc_ok(res, name)
        with open(res.vectors_path) as f:
            for line in f:
                if not line.strip():
                    continue
                stats["behaviours"] += 1
                sch = schedule_of(json.loads(line), rnd, mode)
                if sch is None:
                    stats["unrealisable"] += 1
                    continue
                key = json.dumps([sch["plan"], [(q["conn"], q["partial"]) for q in sch["reqs"]]])
                if key in seen:
                    stats["duplicates"] += 1
                    continue
                seen.add(key)
                out.append(sch)
    rnd.shuffle(out)
    # longest schedules first within the budget: they exercise the most
    out.sort(key=lambda s: -len(s["plan"]))
    half = want // 2
    chosen = out[:half] + rnd.sample(out[half:], min(want - half, max(0, len(out) - half)))
    stats["distinct_schedules"] = len(out)
    stats["run"] = len(chosen)
    cov.setdefault("spec_schedules", {})[mode] = stats
    return chosen



# ---------------------------------------------------------------------------
# traces of the repository's own integration tests (server events only)
# ---------------------------------------------------------------------------
NSLOTS = 32


def server_subtraces(files):
    """Split per-process event files by server; returns a list of (mode, [events]) with requests and
    connections renamed to slots (TraceServerOnly.tla)."""
    out = []
    stats = {"processes": len(files), "servers": 0, "requests": 0, "events": 0, "skipped_events": 0,
             "servers_dropped_for_slots": 0}
    for path in files:
        with open(path) as f:
            evs = [json.loads(x) for x in f if x.strip()]
        srv_of_id = {}
        gen = {}            # srv port -> generation (a port may be reused by a later server)
        per = {}            # (srv, gen) -> events
        done = set()
        for e in evs:
            srv = e.get("srv")
            if srv is None and "id" in e:
                key = srv_of_id.get(e["id"])
            elif srv is not None:
                g = gen.setdefault(srv, 0)
                if (srv, g) in done and e["ev"] in ("accept", "req_start", "close_requested", "accept_exit"):
                    gen[srv] = g = g + 1
                key = (srv, g)
                if e["ev"] == "req_start":
                    srv_of_id[e["id"]] = key
                if e["ev"] == "waitgroup_done":
                    done.add(key)
            else:
                key = None
            if key is None:
                stats["skipped_events"] += 1   # close_requested via Drop, body_frame, ws_upgraded: no server / request id
                continue
            per.setdefault(key, []).append(e)
        for key, es in per.items():
            mode = "detached" if any(e["ev"] == "spawn" for e in es) else "cancel"
            # status of the response that follows a handler's return, by request id
            status_of = {e["id"]: e["status"] for e in es if e["ev"] == "resp_ready"}
            free_r = ["r%d" % i for i in range(NSLOTS)]
            free_c = ["c%d" % i for i in range(2 * NSLOTS)]
            slot_of_id, slot_of_port, live = {}, {}, {}   # live: id -> {"ended":bool,"spawned":bool,"exited":bool}
            idle_conn_lru = []
            res = [{"ev": "reset", "srv": key[0], "mode": mode}]
            ok = True

            def finished(st):
                return st["ended"] and (not st["spawned"] or st["exited"]) and not st["running"]

            for e in es:
                ev = e["ev"]
                if ev == "accept":
                    port = e["port"]
                    if port in slot_of_port:
                        continue
                    if not free_c:
                        # reuse the slot of a connection none of whose requests is alive
                        busy = {live[i]["port"] for i in live}
                        victim = next((p for p in idle_conn_lru if p not in busy), None)
                        if victim is None:
                            ok = False
                            break
                        idle_conn_lru.remove(victim)
                        c = slot_of_port.pop(victim)
                        res.append({"ev": "recycle_conn", "c": c})
                        free_c.append(c)
                    c = free_c.pop(0)
                    slot_of_port[port] = c
                    idle_conn_lru.append(port)
                    res.append({"ev": "accept", "c": c})
                elif ev == "req_start":
                    # free the slots of finished requests first
                    for i in [i for i, st in live.items() if finished(st)]:
                        res.append({"ev": "recycle", "k": slot_of_id[i]})
                        free_r.append(slot_of_id.pop(i))
                        del live[i]
                    if e["port"] not in slot_of_port or not free_r:
                        ok = False
                        break
                    k = free_r.pop(0)
                    slot_of_id[e["id"]] = k
                    live[e["id"]] = {"ended": False, "spawned": False, "exited": False, "running": False,
                                     "port": e["port"]}
                    res.append({"ev": "req_start", "k": k, "c": slot_of_port[e["port"]], "id": e["id"]})
                    stats["requests"] += 1
                elif ev in ("version_ok", "route_ok", "spawn", "extract_ok", "handler_call", "handler_return",
                            "task_exit", "req_cancelled", "resp_ready"):
                    i = e["id"]
                    if i not in slot_of_id:
                        ok = False
                        break
                    st = live[i]
                    rec = {"ev": ev, "k": slot_of_id[i]}
                    if ev == "spawn":
                        st["spawned"] = True
                    elif ev == "task_exit":
                        st["exited"] = True
                    elif ev == "handler_call":
                        st["running"] = True
                    elif ev == "handler_return":
                        st["running"] = False
                        rec["status"] = status_of.get(i, 200 if e.get("ok") else 500)
                    elif ev == "req_cancelled":
                        st["ended"] = True
                        if mode == "cancel":
                            st["running"] = False
                    elif ev == "resp_ready":
                        st["ended"] = True
                        rec.update({"status": e["status"], "err": e["err"], "idhdr": e["idhdr"]})
                    res.append(rec)
                elif ev in ("close_requested", "accept_exit", "graceful_done", "waitgroup_done"):
                    res.append({"ev": ev})
            if not ok:
                stats["servers_dropped_for_slots"] += 1
                continue
            stats["servers"] += 1
            stats["events"] += len(res)
            out.append((mode, res))
    return out, stats


def server_only_binding_demo(prop, path):
    """The server-only trace spec is bound to the trace: a dropped hook event, a detached task that never
    exits before waitgroup_done and a foreign x-request-id must each be rejected."""
    with open(path) as f:
        lines = [x for x in f.read().split("\n") if x.strip()]
    eps = [e for e in vlib.split_episodes(lines) if any('"ev":"task_exit"' in x for x in e)
           and any('"ev":"waitgroup_done"' in x for x in e)][:6]
    lines = [x for e in eps for x in e]
    muts = {}
    for i, ln in enumerate(lines):
        if '"ev":"spawn"' in ln and "drop_spawn_hook" not in muts:
            muts["drop_spawn_hook"] = lines[:i] + lines[i + 1:]
        if '"ev":"resp_ready"' in ln and "foreign_request_id_header" not in muts:
            d = json.loads(ln)
            d["idhdr"] = ["00000000-0000-4000-8000-000000000000"]
            muts["foreign_request_id_header"] = lines[:i] + [json.dumps(d, separators=(",", ":"))] + lines[i + 1:]
    last_exit = max((i for i, ln in enumerate(lines) if '"ev":"task_exit"' in ln), default=None)
    if last_exit is not None:
        muts["task_never_exits_before_waitgroup_done"] = lines[:last_exit] + lines[last_exit + 1:]
    out = {}
    for name, ml in muts.items():
        mp = path + "." + name
        with open(mp, "w") as f:
            f.write("\n".join(ml) + "\n")
        res = vlib.run_trace("%s-sobinding-%s" % (prop, name), "TraceServerOnly.tla", "TraceServerOnly.cfg", mp,
                             env_extra={"MODE": "detached"}, java_opts=["-Dtlc2.tool.impl.Tool.cdot=true"])
        os.unlink(mp)
        out[name] = "rejected" if not res.accepted else "ACCEPTED"
        if res.accepted:
            raise vlib.ToolError("binding demonstration failed: mutated server-only trace %s was accepted" % name)
    if len(out) < 3:
        raise vlib.ToolError("binding demonstration could not be built from the recorded trace: %s" % list(out))
    return out


def repo_tests_traced(prop, tier, findings, cov):
    """Run the repository's own integration tests with the hooks on and validate what their servers did."""
    import glob
    import shutil
    tdir = os.path.join(vlib.WORK, "repotrace-" + prop)
    shutil.rmtree(tdir, ignore_errors=True)
    os.makedirs(tdir)
    env = dict(os.environ, RUSTFLAGS="--cfg dropshot_verif --check-cfg cfg(dropshot_verif)",
               CARGO_TARGET_DIR=os.path.join(vlib.WORK, "repotests-target"), DROPSHOT_VERIF_TRACE=tdir,
               CARGO_NET_OFFLINE="true")
    t0 = time.time()
    # the three test_example_* tests run example binaries that this command does not build
    p = subprocess.run(["cargo", "test", "--offline", "-p", "dropshot", "--test", "integration-tests", "--",
                        "--test-threads=8", "--skip", "pagination::test_example"],
                       cwd="/repo", env=env, stdout=subprocess.PIPE, stderr=subprocess.STDOUT, text=True, timeout=3400)
    m = re.search(r"test result: (\w+)\. (\d+) passed; (\d+) failed", p.stdout)
    vlib.log("[repo-tests] integration tests with hooks on: %s (%.0fs)" % (m.group(0) if m else "no result", time.time() - t0))
    if not m:
        raise vlib.ToolError("the repository's integration tests did not run: %s" % p.stdout[-1500:])
    subs, stats = server_subtraces(sorted(glob.glob(os.path.join(tdir, "*.ndjson"))))
    stats["tests_passed"], stats["tests_failed"] = int(m.group(2)), int(m.group(3))
    rejected = 0
    for mode in ("cancel", "detached"):
        mine = [es for mo, es in subs if mo == mode]
        if not mine:
            continue
        path = os.path.join(tdir, "servers-%s.trace" % mode)
        with open(path, "w") as f:
            for es in mine:
                for e in es:
                    f.write(json.dumps(e, separators=(",", ":")) + "\n")
        if mode == "detached" and "binding_demo" not in stats:
            stats["binding_demo"] = server_only_binding_demo(prop, path)
        neps, nev, rejects, states = vlib.validate_trace_episodes(
            "%s-repotests-%s" % (prop, mode), "TraceServerOnly.tla", "TraceServerOnly.cfg", path,
            env_extra={"MODE": mode}, java_opts=["-Dtlc2.tool.impl.Tool.cdot=true"], max_rejects=5)
        cov["traces_validated_against_impl"] += neps
        cov["trace_events"] += nev
        for rj in rejects:
            rejected += 1
            ev = rj["event"].get("ev", "?")
            props = INV_PROP.get(rj["invariant"], set()) if rj["invariant"] else EVENT_PROP.get(ev, {"C16", "C17"})
            if prop in props:
                findings.add({"engine": "repo-tests-trace", "kind": rj["invariant"] or ("unexplained:" + ev), "shape": mode},
                             {"mode": mode, "rejected_event": rj["event"], "violated_invariant": rj["invariant"],
                              "state_before": rj["state_before"], "episode_events": rj["episode"][-60:],
                              "note": "a server started by the repository's own integration tests did something no "
                                      "behaviour of Lifecycle.tla explains (client steps inferred)"})
    stats["rejected"] = rejected
    cov["repo_integration_tests"] = stats


def drive_and_validate(prop, tier, findings, cov):
    vlib.build_harness()
    episodes = 150 if tier == "quick" else 1200
    chunk = 300
    outdir = os.path.join(vlib.WORK, "lifecycle-" + prop)
    os.makedirs(outdir, exist_ok=True)
    other = 0
    for mode in ("cancel", "detached"):
        done = 0
        part = 0
        while done < episodes:
            n = min(chunk, episodes - done)
            part += 1
            path = os.path.join(outdir, "%s-%d.ndjson" % (mode, part))
            env = dict(os.environ, VERIF_SEED=str(vlib.seed() * 100 + part))
            env.pop("VERIF_PLANS", None)
            if part == 1:
                # the first part also runs the schedules derived from behaviours of the specification
                sch = spec_schedules(prop, tier, mode, cov)
                plans = os.path.join(outdir, "%s-plans.ndjson" % mode)
                with open(plans, "w") as f:
                    for x in sch:
                        f.write(json.dumps(x) + "\n")
                env["VERIF_PLANS"] = plans
            p = subprocess.run([vlib.harness_bin("drive_lifecycle"), mode, str(n), path], env=env,
                               stdout=subprocess.PIPE, stderr=subprocess.PIPE, text=True, timeout=3000)
            if p.returncode != 0:
                raise vlib.ToolError("drive_lifecycle failed: %s" % p.stderr[-2000:])
            neps, nev, rejects, states = vlib.validate_trace_episodes(
                "%s-trace-%s-%d" % (prop, mode, part), "TraceLifecycle.tla", "TraceLifecycle.cfg", path,
                env_extra={"MODE": mode})
            cov["traces_validated_against_impl"] += neps
            cov["trace_events"] += nev
            cov["states"] += states
            cov["transitions"] += states
            for rj in rejects:
                ev = rj["event"].get("ev", "?")
                props = set()
                if rj["invariant"]:
                    props |= INV_PROP.get(rj["invariant"], set())
                else:
                    props |= EVENT_PROP.get(ev, {"C16", "C17"})
                if prop in props:
                    findings.add({"engine": "lifecycle-trace", "kind": rj["invariant"] or ("unexplained:" + ev),
                                  "shape": mode},
                                 {"mode": mode, "trace_file": path, "rejected_event": rj["event"],
                                  "violated_invariant": rj["invariant"],
                                  "state_before": rj["state_before"], "episode_plan": rj["episode_header"],
                                  "episode_events": rj["episode"],
                                  "note": "no behaviour of Lifecycle.tla explains this recorded execution of the real server"})
                else:
                    other += 1
            if len(cov["samples"]) < 3 and os.path.exists(path):
                with open(path) as f:
                    head = [json.loads(x) for x in f.read().split("\n")[:14] if x.strip()]
                cov["samples"].append({"mode": mode, "first_events": head})
            done += n
        if mode == "cancel" and "binding_demo" not in cov:
            cov["binding_demo"] = binding_demo(prop, os.path.join(outdir, "cancel-1.ndjson"))
    cov["rejections_attributed_to_other_properties"] = other


def binding_demo(prop, path):
    """Show that the trace spec is bound to the trace: drop one hook event and
    corrupt one field; both must be rejected."""
    with open(path) as f:
        lines = [x for x in f.read().split("\n") if x.strip()]
    out = {}
    # keep it small: first 40 episodes
    eps = vlib.split_episodes(lines)[:40]
    lines = [x for e in eps for x in e]
    muts = {}
    for i, ln in enumerate(lines):
        if '"ev":"req_start"' in ln and "drop_req_start_hook" not in muts:
            muts["drop_req_start_hook"] = lines[:i] + lines[i + 1:]
        if '"ev":"resp_ready"' in ln and '"status":200' in ln and "corrupt_status" not in muts:
            muts["corrupt_status"] = lines[:i] + [ln.replace('"status":200', '"status":201')] + lines[i + 1:]
        if '"ev":"graceful_done"' in ln and "waitgroup_done_before_graceful_done" not in muts:
            # the shutdown steps out of order: waitgroup_done is only enabled after graceful_done
            if i + 1 < len(lines) and '"ev":"waitgroup_done"' in lines[i + 1]:
                muts["waitgroup_done_before_graceful_done"] = lines[:i] + [lines[i + 1], ln] + lines[i + 2:]
    for name, ml in muts.items():
        mp = path + "." + name
        with open(mp, "w") as f:
            f.write("\n".join(ml) + "\n")
        res = vlib.run_trace("%s-binding-%s" % (prop, name), "TraceLifecycle.tla", "TraceLifecycle.cfg", mp,
                             env_extra={"MODE": "cancel"})
        out[name] = "rejected" if not res.accepted else "ACCEPTED"
        os.unlink(mp)
        if res.accepted:
            raise vlib.ToolError("binding demonstration failed: mutated trace %s was accepted" % name)
    return out


def run(prop, tier, text_rule):
    t0 = time.time()
    findings = vlib.Findings(prop)
    cov = {"states": 0, "transitions": 0, "traces_validated_against_impl": 0, "trace_events": 0,
           "samples": [], "model_runs": []}
    model_check(prop, tier, findings, cov)
    drive_and_validate(prop, tier, findings, cov)
    if tier == "thorough":
        repo_tests_traced(prop, tier, findings, cov)
    cov["rule"] = text_rule
    rc = findings.report()
    vlib.write_evidence(prop, tier, "model_checking", cov,
                        ["events are totally ordered by a sequence number assigned under the event log's lock; driver "
                         "events that cause something are emitted before the cause, observations after",
                         "timeouts of 10 s stand for 'never' (typical latency is milliseconds)",
                         "HTTP/1 and HTTP/2 (h2c) connections; a panicking handler takes its own HTTP/1 connection down, "
                         "an HTTP/2 panic resets its stream (DESIGN section 8)",
                         "an exhaustive TLC run reads only the specification; its numbers are reused from an identical "
                         "earlier run in this sandbox (same files, same configuration) when there is one -- see "
                         "model_runs[].reused_identical_run_of",
                         "requests that had not been started when shutdown began may go unanswered (rule 6)"],
                        time.time() - t0, len(findings.violations))
    return rc


def check_c16(tier):
    return run("C16", tier,
               "TLC explores Lifecycle.tla exhaustively (2 connections x 2 requests safety, 1x2 with fairness for the "
               "liveness properties) in both task modes; the real server is driven through schedules derived from behaviours of "
               "the specification (TLC simulation of MC_LifecyclePlan.tla projected onto client / gate / close steps) and "
               "through seeded random plans "
               "(1-4 requests, shared/pipelined or separate connections, partial sends, disconnect before/after handler "
               "entry/step/completion, handler panics and errors, invalid requests, close() at a random point) and every "
               "recorded trace must be a behaviour of the specification with all invariants holding at every step")


def check_c17(tier):
    return run("C17", tier,
               "as C16; the shutdown actions (close_requested, accept_exit, graceful_done, waitgroup_done, close "
               "returned, waiters released, connect after stop) are enabled only under the specification's guards "
               "(no request future alive, waitgroup empty), so a shutdown that finishes early, a dropped response or a "
               "port that still accepts is an unexplained event")
