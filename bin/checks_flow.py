"""C09, C10: RequestFlow.tla case tables enumerated by TLC; every case sent
over the wire (concurrently) to typed echo endpoints; the recorded trace is
validated by TraceRequestFlow.tla."""
import json
import os
import subprocess
import time

import vlib


def _run(prop, tier):
    t0 = time.time()
    vlib.build_harness()
    findings = vlib.Findings(prop)
    cfg = "\n".join(["SPECIFICATION Spec", "INVARIANT RejectIfAnyInvalid", "INVARIANT EmitVec",
                     "CHECK_DEADLOCK FALSE", ""])
    res = vlib.run_tlc(prop + "-flow", "MC_RequestFlow.tla", "MC_RequestFlow_run.cfg", workers=1, timeout=600,
                       extra_files={"MC_RequestFlow_run.cfg": cfg}, coverage=False)
    vlib.tlc_ok(res, "requestflow")
    if res.violated:
        findings.add({"engine": "flow-model", "kind": "invariant:" + str(res.violated), "shape": "other"},
                     {"tlc_trace": res.trace[-3000:]})
    if res.nvectors != 1:
        raise vlib.ToolError("expected one case table from MC_RequestFlow, got %d" % res.nvectors)
    outdir = os.path.join(vlib.WORK, "flow-" + prop)
    os.makedirs(outdir, exist_ok=True)
    cases = os.path.join(outdir, "cases.json")
    with open(res.vectors_path) as f, open(cases, "w") as g:
        g.write(f.readline())
    ncases = {k: len(v) for k, v in json.load(open(cases)).items()}
    path = os.path.join(outdir, "trace.ndjson")
    p = subprocess.run([vlib.harness_bin("drive_flow"), tier, cases, path],
                       env=dict(os.environ, VERIF_SEED=str(vlib.seed())),
                       stdout=subprocess.PIPE, stderr=subprocess.PIPE, text=True, timeout=3000)
    if p.returncode != 0:
        raise vlib.ToolError("drive_flow failed: %s" % p.stderr[-2000:])
    with open(path) as f:
        lines = [x for x in f.read().split("\n") if x.strip()]
    nreq = sum(1 for x in lines if '"ev":"flow_send"' in x)
    validated = 0
    states = 0
    other = 0
    known = {}
    for it in range(12):
        cur = path + ".v%d" % it
        with open(cur, "w") as f:
            f.write("\n".join(lines) + "\n")
        tr = vlib.run_trace("%s-trace-%d" % (prop, it), "TraceRequestFlow.tla", "TraceRequestFlow.cfg", cur)
        os.unlink(cur)
        states += tr.states
        for k, v in tr.known.items():
            known[k] = known.get(k, 0) + v
        if tr.accepted:
            validated = sum(1 for x in lines if '"ev":"flow_send"' in x)
            break
        ev = json.loads(lines[tr.reject_line - 1])
        # find the request this event belongs to
        n = ev.get("n")
        rid = ev.get("id")
        if not n and rid:
            for x in lines:
                if '"ev":"req_start"' in x and rid in x:
                    n = json.loads(x).get("n")
                    break
        send = None
        for x in lines:
            if '"ev":"flow_send"' in x and '"n":"%s"' % n in x:
                send = json.loads(x)
                break
        valid = bool(send and send.get("valid"))
        kind = ev.get("ev")
        if kind in ("client_recv",):
            mine = "C09" if valid else "C10"
        elif kind == "client_noresp":
            mine = "C09" if valid else "C10"   # a valid request went unanswered / an invalid one was not refused
        elif kind == "extract_ok":
            mine = "C10"
        elif kind == "handler_echo":
            mine = "C09" if valid else "C10"
        else:
            mine = "C09"
        if mine == prop:
            hexd = lambda h: bytes.fromhex(h).decode("utf8", "replace") if isinstance(h, str) else h
            findings.add({"engine": "flow-trace", "kind": "unexplained:" + str(kind),
                          "shape": ",".join("%s:%s:%s" % (c["pos"], c["ty"], c["c"]) for c in (send or {}).get("case", []))},
                         {"rejected_event": ev, "request": {"n": n, "valid": valid, "case": (send or {}).get("case"),
                                                            "target": hexd((send or {}).get("target_hex", "")),
                                                            "wanted_value": hexd((send or {}).get("want_hex", ""))},
                          "handler_saw": hexd(ev.get("val_hex", "")) if kind == "handler_echo" else None,
                          "note": "no behaviour of RequestFlow.tla explains what the real server did with this request"})
        else:
            other += 1
        # drop every line of that request and go on with the rest
        ids = {json.loads(x).get("id") for x in lines if '"ev":"req_start"' in x and '"n":"%s"' % n in x}
        lines = [x for x in lines if '"n":"%s"' % n not in x and not any(i and i in x for i in ids)]
    for payload, cnt in known.items():
        k = json.loads(payload)
        if k["prop"] == prop:
            for _ in range(cnt):
                if findings.add({"engine": "flow-trace", "kind": k["kind"], "shape": k["shape"]}, {}) != "known":
                    raise vlib.ToolError("spec says known but known_findings.json does not: %s" % payload)
    samples = []
    for x in lines:
        if '"ev":"flow_send"' in x and len(samples) < 3:
            d = json.loads(x)
            samples.append({"case": d["case"], "valid": d["valid"],
                            "target": bytes.fromhex(d["target_hex"]).decode("utf8", "replace")[:200]})
    rc = findings.report()
    vlib.write_evidence(
        prop, tier, "exploration" if prop == "C09" else "model_checking",
        {"evaluations": nreq, "distinct_nontrivial": sum(ncases.values()),
         "states": res.distinct + states, "transitions": res.generated + states,
         "traces_validated_against_impl": validated,
         "samples": samples, "case_table": ncases, "requests_sent": nreq,
         "rejections_attributed_to_other_property": other,
         "rule": "TLC enumerates every (position, declared type, value class) case and selected pairs with the pipeline rule "
                 "(invoke iff every component valid); each case is instantiated with concrete values in random encodings "
                 "(hex case, + vs %20, chunked bodies split inside multi-byte characters) and sent in concurrent batches of 16; "
                 "a case is non-trivial when it is a distinct cell of the table"},
        ["fidelity of a value is an equality of two logged canonical JSON texts (what the client encoded, what the handler "
         "received); the value space is sampled per class",
         "'+7' and '007' parse as 7 in path and query position (Rust FromStr); unknown query keys and JSON members are ignored"],
        time.time() - t0, len(findings.violations))
    return rc


def check_c09(tier):
    return _run("C09", tier)


def check_c10(tier):
    return _run("C10", tier)
