"""C01, C02, C04, C06: Router.tla model checking + replay of every explored
state through the real ApiDescription / router / OpenAPI generator."""
import json
import os
import time

import vlib


def tla_set(xs):
    return "{" + ", ".join('"%s"' % x if isinstance(x, str) else str(x) for x in xs) + "}"


def router_cfg(pool, props, methods=("GET", "PUT", "POST"), alpha=("a", "b", "z"), maxlen=3,
               vers=(0,), maxregs=2, tagpolicy="any", allowother=True, knowntags=()):
    return "\n".join([
        "SPECIFICATION Spec",
        "CONSTANTS",
        "  Pool <- %s" % pool,
        "  ReqMethods = %s" % tla_set(methods),
        "  SegAlpha = %s" % tla_set(alpha),
        "  MaxReqLen = %d" % maxlen,
        "  ProbeVers = %s" % tla_set(vers),
        "  MaxRegs = %d" % maxregs,
        '  TagPolicy = "%s"' % tagpolicy,
        "  AllowOtherTags = %s" % ("TRUE" if allowother else "FALSE"),
        "  KnownTags = %s" % tla_set(knowntags),
        "  KnownOpen <- KnownOpenRouter",
        "  Props = %s" % tla_set(props),
        "VIEW View",
        "INVARIANT CheckViolations",
        "INVARIANT TrieShape",
        "INVARIANT EmitVec",
        "CHECK_DEADLOCK FALSE",
        "",
    ])


# name -> kwargs for router_cfg, per tier
def configs_for(prop, tier):
    q = tier == "quick"
    shape2 = dict(pool="ShapePool2", maxregs=2 if q else 3)
    shape3 = dict(pool="ShapePool3", maxlen=4, maxregs=2 if q else 3)
    ver = dict(pool="VerPool", vers=(1, 2, 3, 4, 5), alpha=("a", "z"), maxlen=3,
               maxregs=2 if q else 3)
    bad = dict(pool="BadPool", maxregs=1, maxlen=1)
    params = dict(pool="ParamPool", maxregs=1, maxlen=2, methods=("GET", "PUT"))
    tags = [dict(pool="TagPool", maxregs=1, maxlen=1, methods=("GET",), tagpolicy=tp,
                 allowother=ao, knowntags=("t", "u"))
            for tp in ("any", "atleastone", "exactlyone") for ao in (True, False)]
    cfgs = {}
    if prop == "C01":
        cfgs = {"shape2": shape2, "shape3": shape3, "ver": ver}
    elif prop == "C02":
        cfgs = {"shape2": shape2, "ver": ver, "bad": bad, "params": params}
        for i, t in enumerate(tags):
            cfgs["tags%d" % i] = t
        if not q:
            cfgs["shape3"] = shape3
    elif prop == "C04":
        cfgs = {"ver": ver, "shape2": shape2}
        if not q:
            cfgs["shape3"] = shape3
    elif prop == "C06":
        cfgs = {"ver": dict(ver, pool="VerVisPool"), "shape2": shape2}
        if not q:
            cfgs["shape3"] = shape3
    return cfgs


def run_router_check(prop, tier):
    t0 = time.time()
    vlib.build_harness()
    findings = vlib.Findings(prop)
    states = transitions = vectors = 0
    samples = []
    per_cfg = {}
    replay_mismatch_other = 0
    for name, kw in configs_for(prop, tier).items():
        cfgname = "MC_Router_%s.cfg" % name
        cfg = router_cfg(props=(prop,), **kw)
        res = vlib.run_tlc("%s-%s" % (prop, name), "MC_Router.tla", cfgname, workers=12,
                           timeout=3000 if tier == "thorough" else 900,
                           extra_files={cfgname: cfg}, tags=("VEC", "KNOWN", "VIOL"),
                           heap="12g")
        vlib.tlc_ok(res, name)
        states += res.distinct
        transitions += res.generated
        for payload, cnt in res.known.items():
            k = json.loads(payload)
            st = findings.add({"engine": "router", "kind": k["kind"], "shape": k["shape"]},
                              {"config": name, "model_violation": k})
            if st != "known":
                raise vlib.ToolError("spec says known but known_findings.json does not: %s" % payload)
        for tag, payload in res.printed:
            if tag == "VIOL":
                v = json.loads(payload)
                findings.add({"engine": "router", "kind": v["viol"]["kind"], "shape": v["viol"]["shape"]},
                             {"config": name, "model_violation": v["viol"], "registrations": v["regs"],
                              "witness_requests": v.get("witness", [])[:10],
                              "note": "TLC invariant CheckViolations failed in Router.tla "
                                      "(the specification of what the code does breaks the property)",
                              "tlc_trace": res.trace[-4000:]})
        if res.violated and not any(t == "VIOL" for t, _ in res.printed):
            findings.add({"engine": "router", "kind": "invariant:" + str(res.violated), "shape": "other"},
                         {"config": name, "tlc_trace": res.trace[-6000:]})
        # ---- replay every explored state through the real code ----
        results = vlib.run_replay("replay_router", res.vectors_path)
        vectors += len(results)
        nm = 0
        for r in results:
            for mm in r.get("mismatches", []):
                if mm.get("prop") == prop:
                    nm += 1
                    findings.add({"engine": "replay", "kind": mm.get("what"), "shape": "other"},
                                 {"config": name, "mismatch": mm, "instantiation": r.get("inst"),
                                  "vector": json.loads(r["_vector"]),
                                  "note": "the real dropshot code disagrees with Router.tla on this state"})
                else:
                    replay_mismatch_other += 1
        if results and len(samples) < 4:
            v = json.loads(results[len(results) // 2]["_vector"])
            samples.append({"config": name,
                            "registrations": [{"m": e["m"], "tpl": e["tpl"], "r": e["r"]} for e in v["regs"]],
                            "non404_lookups": len(v["table"]), "candidates": len(v["next"]),
                            "instantiation": results[len(results) // 2].get("inst")})
        per_cfg[name] = {"distinct_states": res.distinct, "states_generated": res.generated,
                         "vectors_replayed": len(results), "replay_mismatches": nm,
                         "known_hits": sum(res.known.values()), "tlc_wall_s": round(res.wall, 1),
                         "coverage": {k: list(v) for k, v in res.coverage.items()}}
    live = vlib.live_versioned(prop, tier, findings) if prop in ("C01", "C04") else {}
    if prop == "C06":
        # "every schema or response reference resolves inside the document", on a document with real types:
        # the corpus of the C07 driver (typed headers, nested and shared types, custom error types)
        import subprocess
        dpath = os.path.join(vlib.WORK, "doc-refs-C06.ndjson")
        p = subprocess.run([vlib.harness_bin("drive_doc"), dpath], env=dict(os.environ, VERIF_SEED=str(vlib.seed())),
                           stdout=subprocess.PIPE, stderr=subprocess.PIPE, text=True, timeout=1500)
        if p.returncode != 0:
            raise vlib.ToolError("drive_doc failed: %s" % p.stderr[-1500:])
        with open(dpath) as f:
            refs = [json.loads(x) for x in f if '"ev":"doc_refs"' in x]
        if not refs:
            raise vlib.ToolError("drive_doc recorded no doc_refs event")
        for r in refs:
            for u in r["unresolved"]:
                findings.add({"engine": "doc-refs", "kind": "dangling-ref", "shape": "other"},
                             {"reference": u, "note": "a $ref of the generated document does not resolve inside it"})
        live = dict(live, typed_document_refs_checked=True, unresolved=sum(len(r["unresolved"]) for r in refs))
    rc = findings.report()
    vlib.write_evidence(
        prop, tier, "model_checking",
        {"states": states, "transitions": transitions,
         "traces_validated_against_impl": vectors + live.get("live_route_tables", 0),
         "live_versioned_server": live,
         "samples": samples,
         "configs": per_cfg,
         "exhaustive": True,
         "rule": "every distinct reachable state of Router.tla within the config bounds; each state is one "
                 "replay vector (registration order, outcome of every candidate next registration, full "
                 "lookup table over the request universe, document operation sets) executed against the "
                 "real ApiDescription/router with randomly instantiated literal, variable and version names",
         "known_findings_seen": sorted(findings.known_hits.keys()),
         "replay_mismatches_for_other_properties": replay_mismatch_other},
        ["Router.tla transcribes insert/lookup_route/validators by hand; the replay compares the real code with "
         "that transcription on every explored state",
         "a registration that panics ends the use of that ApiDescription (DESIGN section 8 rule 1)",
         "small-scope: <=3 registrations, <=3 segments, 2 literals/names per position"],
        time.time() - t0, len(findings.violations))
    return rc


def check_c01(tier):
    return run_router_check("C01", tier)


def check_c02(tier):
    return run_router_check("C02", tier)


def check_c04(tier):
    return run_router_check("C04", tier)


def check_c06(tier):
    return run_router_check("C06", tier)
