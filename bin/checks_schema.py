"""C08: SchemaConv.tla / JsonSchema.tla -- the type's own JSON Schema versus the
schema published in the real OpenAPI document, decided by TLC on probe
instances (with a probe-adequacy obligation)."""
import json
import os
import subprocess
import time

import vlib


def check_c08(tier):
    t0 = time.time()
    vlib.build_harness()
    findings = vlib.Findings("C08")
    outdir = os.path.join(vlib.WORK, "schema")
    os.makedirs(outdir, exist_ok=True)
    path = os.path.join(outdir, "trace.ndjson")
    env = dict(os.environ, VERIF_SEED=str(vlib.seed()),
               VERIF_PROBES="300" if tier == "quick" else "1500",
               VERIF_ADEQUACY="8" if tier == "quick" else "60")
    p = subprocess.run([vlib.harness_bin("drive_schema"), path], env=env,
                       stdout=subprocess.PIPE, stderr=subprocess.PIPE, text=True, timeout=3000)
    if p.returncode != 0:
        raise vlib.ToolError("drive_schema failed: %s" % p.stderr[-2000:])
    with open(path) as f:
        lines = [x for x in f.read().split("\n") if x.strip()]
    counts = {}
    nprobes = 0
    for x in lines:
        d = json.loads(x)
        counts[d["ev"]] = counts.get(d["ev"], 0) + 1
        if d["ev"] == "convert":
            nprobes += len(d["probes"])
    unsupported = [json.loads(x) for x in lines if '"ev":"unsupported"' in x]
    states = 0
    known = {}
    validated = 0
    for it in range(15):
        cur = path + ".v%d" % it
        with open(cur, "w") as f:
            f.write("\n".join(lines) + "\n")
        tr = vlib.run_trace("C08-trace-%d" % it, "TraceSchemaConv.tla", "TraceSchemaConv.cfg", cur, heap="8g")
        os.unlink(cur)
        states += tr.states
        for k, v in tr.known.items():
            known[k] = max(known.get(k, 0), v)
        if tr.accepted:
            validated = len(lines)
            break
        ev = json.loads(lines[tr.reject_line - 1])
        if ev["ev"] == "adequacy":
            raise vlib.ToolError("probe set inadequate for type %s: mutant '%s' of its schema is not distinguished by any "
                                 "probe (strengthen the probe derivation)" % (ev["name"], ev["what"]))
        if ev["ev"] == "unsupported":
            kind = "conversion-failed-without-explicit-unsupported-message"
        else:
            kind = "schema-meaning-changed"
        findings.add({"engine": "schema-trace", "kind": kind, "shape": ev.get("name", "?")},
                     {"type": ev.get("name"), "type_schema": ev.get("raw_in"), "published_schema": ev.get("raw_out"),
                      "tlc_diagnosis": tr.reject_event, "message": ev.get("msg"),
                      "note": "SchemaConv.tla: the published schema does not accept exactly what the type's schema accepts "
                              "(disagree = probe indices with the type schema's verdict), or an annotation / non-evaluated "
                              "keyword was not preserved"})
        lines = lines[:tr.reject_line - 1] + lines[tr.reject_line:]
    for payload, cnt in known.items():
        k = json.loads(payload)
        for _ in range(cnt):
            if findings.add({"engine": "schema-trace", "kind": k["kind"], "shape": k["shape"]}, {}) != "known":
                raise vlib.ToolError("spec says known but known_findings.json does not: %s" % payload)
    rc = findings.report()
    sample = next((json.loads(x) for x in lines if '"ev":"convert"' in x and '"name":"Ranged"' in x), None)
    vlib.write_evidence(
        "C08", tier, "exploration",
        {"evaluations": nprobes, "distinct_nontrivial": counts.get("convert", 0),
         "rule": "each Rust type of the corpus (structs, all serde enum representations, options, sequences, sets, maps, "
                 "numeric widths, formats, validation attributes, recursive and generic types) is one case: its schemars "
                 "schema and the schema found in the real OpenAPI document are evaluated by JsonSchema.tla on probe instances "
                 "derived from both schemas' constants; evaluations = probe instances evaluated on both sides",
         "samples": [{"type": sample["name"], "type_schema": sample["raw_in"][:400],
                      "published_schema": sample["raw_out"][:400], "probes": len(sample["probes"])}] if sample else ["none"],
         "types": counts.get("convert", 0), "adequacy_mutants_distinguished": counts.get("adequacy", 0),
         "unsupported_types": [u["name"] for u in unsupported], "trace_lines_validated": validated,
         "tlc_states": states},
        ["`pattern` and `format` are compared for verbatim preservation, not evaluated; numbers beyond 30 bits and "
         "non-integers likewise", "types whose conversion panics with one of dropshot's explicit 'unsupported' messages "
         "define the unsupported set (tuple-like arrays)", "schemas are evaluated under OpenAPI 3.0.3 semantics on both sides",
         "the root `title` that schemars adds to a root schema is exempt (the document names components by key)"],
        time.time() - t0, len(findings.violations))
    return rc


def check_c07(tier):
    t0 = time.time()
    vlib.build_harness()
    findings = vlib.Findings("C07")
    outdir = os.path.join(vlib.WORK, "doc")
    os.makedirs(outdir, exist_ok=True)
    path = os.path.join(outdir, "trace.ndjson")
    p = subprocess.run([vlib.harness_bin("drive_doc"), path], env=dict(os.environ, VERIF_SEED=str(vlib.seed())),
                       stdout=subprocess.PIPE, stderr=subprocess.PIPE, text=True, timeout=3000)
    if p.returncode != 0:
        raise vlib.ToolError("drive_doc failed: %s" % p.stderr[-2000:])
    with open(path) as f:
        lines = [x for x in f.read().split("\n") if x.strip()]
    nreq = sum(1 for x in lines if '"ev":"doc_request"' in x)
    ops = sorted({json.loads(x)["op"] for x in lines if '"ev":"doc_request"' in x})
    omits = sum(1 for x in lines if '"ev":"doc_request"' in x and '"omitted":""' not in x)
    states = 0
    validated = 0
    for it in range(12):
        cur = path + ".v%d" % it
        with open(cur, "w") as f:
            f.write("\n".join(lines) + "\n")
        tr = vlib.run_trace("C07-trace-%d" % it, "TraceDocTruth.tla", "TraceDocTruth.cfg", cur, heap="8g")
        os.unlink(cur)
        states += tr.states
        if tr.accepted:
            validated = sum(1 for x in lines if '"ev":"doc_request"' in x)
            break
        ev = json.loads(lines[tr.reject_line - 1])
        n = ev.get("n")
        reqline = next((json.loads(x) for x in lines if '"ev":"doc_request"' in x and '"n":"%s"' % n in x), {})
        findings.add({"engine": "doc-trace", "kind": "unexplained:" + str(ev.get("ev")), "shape": ev.get("op", "?")},
                     {"operation": ev.get("op"), "request": {k: reqline.get(k) for k in ("m", "target", "omitted", "has_body")},
                      "response": {k: ev.get(k) for k in ("status", "ctype", "listed", "listed_as", "ctype_listed", "empty")},
                      "tlc_diagnosis": tr.reject_event,
                      "note": "DocTruth.tla: the server's behaviour for a request built from the document, or the response it "
                              "sent, is not what the document says"})
        ids = {json.loads(x).get("id") for x in lines if '"ev":"req_start"' in x and '"n":"%s"' % n in x}
        lines = [x for x in lines if '"n":"%s"' % n not in x and not any(i and i in x for i in ids)]
    rc = findings.report()
    sample = next((json.loads(x) for x in lines if '"ev":"doc_request"' in x and "doc_job_submit" in x), None)
    vlib.write_evidence(
        "C07", tier, "exploration",
        {"evaluations": nreq, "distinct_nontrivial": len(ops),
         "rule": "an API corpus of %d operations (path/query parameters of several types, required and optional; JSON, "
                 "URL-encoded and raw bodies; 200/201/202/204/303 responses, declared headers, a nullable response, a "
                 "paginated response, HttpError and a custom error type) is served live; requests are built purely from "
                 "the generated document (documented path, required parameters, bodies derived from the documented request "
                 "schema, valid and invalid -- the specification decides validity), plus one request per omitted required "
                 "parameter; every response is checked against what the document lists for its status; distinct = operations" % len(ops),
         "samples": [{"op": sample["op"], "target": sample["target"], "has_body": sample["has_body"]}] if sample else ["none"],
         "operations": ops, "requests_with_an_omitted_required_parameter": omits,
         "requests_validated": validated, "tlc_states": states},
        ["instance generation is boundary-driven, not exhaustive; `pattern` / `format` are not evaluated",
         "bodies of non-JSON content types are sent as the canonical sample of the documented schema only",
         "an omitted request *body* is not asserted either way (the property speaks of parameters)"],
        time.time() - t0, len(findings.violations))
    return rc
