//! Re-encoding of JSON values and JSON Schemas as the tagged AST that
//! JsonSchema.tla evaluates, derivation of probe instances from a schema's
//! own constants, and single-keyword mutants (for probe adequacy).

use serde_json::json;
use serde_json::Map;
use serde_json::Value;

/// JSON value -> tagged AST
pub fn tag_value(v: &Value) -> Value {
    match v {
        Value::Null => json!({"t": "null"}),
        Value::Bool(b) => json!({"t": "bool", "v": b}),
        Value::Number(n) => match n.as_i64() {
            Some(i) if i.abs() < (1 << 30) && n.is_i64() => json!({"t": "int", "v": i}),
            _ => {
                // integral floats such as 3.0 are integers for JSON Schema
                if let Some(f) = n.as_f64() {
                    if f.fract() == 0.0 && f.abs() < (1u64 << 30) as f64 && !n.is_i64() && !n.is_u64() {
                        return json!({"t": "int", "v": f as i64});
                    }
                }
                // `i`: the number is integral (too large for the evaluator's integers)
                let integral = n.is_i64() || n.is_u64() || n.as_f64().map(|f| f.fract() == 0.0).unwrap_or(false);
                json!({"t": "num", "s": n.to_string(), "i": integral})
            }
        },
        Value::String(s) => json!({"t": "str", "v": s}),
        Value::Array(a) => json!({"t": "arr", "v": a.iter().map(tag_value).collect::<Vec<_>>()}),
        Value::Object(m) => json!({"t": "obj", "k": m.keys().cloned().collect::<Vec<_>>(),
                                   "v": m.values().map(tag_value).collect::<Vec<_>>()}),
    }
}

fn none_n() -> Value {
    json!({"has": false, "v": 0})
}
fn n_of(v: Option<&Value>) -> Value {
    match v.and_then(|x| x.as_u64()) {
        Some(n) if n < (1 << 30) => json!({"has": true, "v": n}),
        Some(_) => json!({"has": true, "v": (1 << 30)}),
        None => none_n(),
    }
}

fn bound(value: Option<&Value>, excl_flag: Option<&Value>, excl_value: Option<&Value>) -> Value {
    // draft-style: exclusiveMinimum: <number>; OpenAPI 3.0 style: minimum + exclusiveMinimum: true
    let (num, excl) = match (value, excl_flag, excl_value) {
        (_, _, Some(ev)) if ev.is_number() => (Some(ev), true),
        (Some(v), Some(Value::Bool(true)), _) => (Some(v), true),
        (Some(v), _, _) => (Some(v), false),
        _ => (None, false),
    };
    match num {
        None => json!({"has": false, "v": 0, "excl": false, "big": false, "text": ""}),
        Some(n) => {
            let text = canon_number(n);
            match tag_value(n) {
                Value::Object(m) if m.get("t").and_then(|x| x.as_str()) == Some("int") => {
                    json!({"has": true, "v": m["v"], "excl": excl, "big": false, "text": text})
                }
                _ => json!({"has": true, "v": 0, "excl": excl, "big": true, "text": text}),
            }
        }
    }
}

/// canonical text of a number, so that 3 and 3.0 compare equal
fn canon_number(n: &Value) -> String {
    match n.as_f64() {
        Some(f) if f.fract() == 0.0 && f.abs() < 1e15 => format!("{}", f as i64),
        Some(f) => format!("{:e}", f),
        None => n.to_string(),
    }
}

pub fn empty_schema() -> Map<String, Value> {
    let mut m = Map::new();
    m.insert("any".into(), json!(false));
    m.insert("ref".into(), json!(""));
    m.insert("type".into(), json!(""));
    m.insert("nullable".into(), json!(false));
    m.insert("hasEnum".into(), json!(false));
    m.insert("enum".into(), json!([]));
    m.insert("min".into(), bound(None, None, None));
    m.insert("max".into(), bound(None, None, None));
    m.insert("multipleOf".into(), json!({"has": false, "v": 0, "text": ""}));
    m.insert("minLen".into(), none_n());
    m.insert("maxLen".into(), none_n());
    m.insert("pattern".into(), json!(""));
    m.insert("format".into(), json!(""));
    m.insert("items".into(), json!({"has": false}));
    m.insert("minItems".into(), none_n());
    m.insert("maxItems".into(), none_n());
    m.insert("unique".into(), json!(false));
    m.insert("props".into(), json!([]));
    m.insert("required".into(), json!([]));
    m.insert("addl".into(), json!({"mode": "absent"}));
    m.insert("minProps".into(), none_n());
    m.insert("maxProps".into(), none_n());
    m.insert("allOf".into(), json!([]));
    m.insert("anyOf".into(), json!([]));
    m.insert("oneOf".into(), json!([]));
    m.insert("not".into(), json!({"has": false}));
    m.insert("title".into(), json!(""));
    m.insert("description".into(), json!(""));
    m.insert("default".into(), json!(""));
    m.insert("deprecated".into(), json!(false));
    m.insert("example".into(), json!(""));
    m.insert("ext".into(), json!([]));
    m.insert("unmodelled".into(), json!([]));
    m
}

fn ref_name(r: &str) -> String {
    r.rsplit('/').next().unwrap_or(r).to_string()
}

/// JSON Schema (schemars output or OpenAPI 3.0 schema object) -> normalised AST
pub fn normalise(s: &Value) -> Value {
    let mut m = empty_schema();
    match s {
        Value::Bool(true) => {
            m.insert("any".into(), json!(true));
            return Value::Object(m);
        }
        Value::Bool(false) => {
            m.insert("not".into(), json!({"has": true, "s": normalise(&Value::Bool(true))}));
            return Value::Object(m);
        }
        _ => {}
    }
    let Some(o) = s.as_object() else { return Value::Object(m) };
    let mut unmodelled: Vec<String> = vec![];
    let mut ext: Vec<(String, String)> = vec![];
    for (k, v) in o {
        match k.as_str() {
            "$ref" => {
                m.insert("ref".into(), json!(ref_name(v.as_str().unwrap_or(""))));
            }
            "type" => match v {
                Value::String(t) => {
                    m.insert("type".into(), json!(t));
                }
                _ => unmodelled.push("type-array".into()),
            },
            "nullable" => {
                m.insert("nullable".into(), json!(v.as_bool().unwrap_or(false)));
            }
            "enum" => {
                m.insert("hasEnum".into(), json!(true));
                m.insert("enum".into(), json!(v.as_array().map(|a| a.iter().map(tag_value).collect::<Vec<_>>()).unwrap_or_default()));
            }
            "const" => {
                // documented rename: const -> one-element enum
                m.insert("hasEnum".into(), json!(true));
                m.insert("enum".into(), json!([tag_value(v)]));
            }
            "minimum" | "maximum" | "exclusiveMinimum" | "exclusiveMaximum" => {}
            "multipleOf" => {
                let t = tag_value(v);
                let iv = if t["t"] == "int" { t["v"].clone() } else { json!(0) };
                m.insert("multipleOf".into(), json!({"has": true, "v": iv, "text": canon_number(v)}));
            }
            "minLength" => { m.insert("minLen".into(), n_of(Some(v))); }
            "maxLength" => { m.insert("maxLen".into(), n_of(Some(v))); }
            "pattern" => { m.insert("pattern".into(), json!(v.as_str().unwrap_or(""))); }
            "format" => { m.insert("format".into(), json!(v.as_str().unwrap_or(""))); }
            "items" => match v {
                Value::Array(_) => unmodelled.push("items-tuple".into()),
                _ => { m.insert("items".into(), json!({"has": true, "s": normalise(v)})); }
            },
            "minItems" => { m.insert("minItems".into(), n_of(Some(v))); }
            "maxItems" => { m.insert("maxItems".into(), n_of(Some(v))); }
            "uniqueItems" => { m.insert("unique".into(), json!(v.as_bool().unwrap_or(false))); }
            "properties" => {
                let props: Vec<Value> = v.as_object().map(|p| {
                    p.iter().map(|(pk, pv)| json!({"k": pk, "s": normalise(pv)})).collect()
                }).unwrap_or_default();
                m.insert("props".into(), json!(props));
            }
            "required" => {
                let mut r: Vec<String> = v.as_array().map(|a| a.iter().filter_map(|x| x.as_str().map(|s| s.to_string())).collect()).unwrap_or_default();
                r.sort();
                m.insert("required".into(), json!(r));
            }
            "additionalProperties" => match v {
                Value::Bool(true) => { m.insert("addl".into(), json!({"mode": "true"})); }
                Value::Bool(false) => { m.insert("addl".into(), json!({"mode": "false"})); }
                _ => { m.insert("addl".into(), json!({"mode": "schema", "s": normalise(v)})); }
            },
            "minProperties" => { m.insert("minProps".into(), n_of(Some(v))); }
            "maxProperties" => { m.insert("maxProps".into(), n_of(Some(v))); }
            "allOf" | "anyOf" | "oneOf" => {
                m.insert(k.clone(), json!(v.as_array().map(|a| a.iter().map(normalise).collect::<Vec<_>>()).unwrap_or_default()));
            }
            "not" => { m.insert("not".into(), json!({"has": true, "s": normalise(v)})); }
            "title" => { m.insert("title".into(), json!(v.as_str().unwrap_or(""))); }
            "description" => { m.insert("description".into(), json!(v.as_str().unwrap_or(""))); }
            "default" => { m.insert("default".into(), json!(v.to_string())); }
            "deprecated" => { m.insert("deprecated".into(), json!(v.as_bool().unwrap_or(false))); }
            "example" => { m.insert("example".into(), json!(v.to_string())); }
            "examples" => {
                // schemars: `examples` (a list); OpenAPI 3.0 has a single `example`
                if let Some(first) = v.as_array().and_then(|a| a.first()) {
                    m.insert("example".into(), json!(first.to_string()));
                }
            }
            "$schema" | "definitions" | "components" => {}
            "readOnly" | "writeOnly" => {
                if v.as_bool() == Some(true) { ext.push((k.clone(), "true".into())); }
            }
            other if other.starts_with("x-") => ext.push((other.to_string(), v.to_string())),
            other => unmodelled.push(other.to_string()),
        }
    }
    m.insert("min".into(), bound(o.get("minimum"), o.get("exclusiveMinimum"), o.get("exclusiveMinimum")));
    m.insert("max".into(), bound(o.get("maximum"), o.get("exclusiveMaximum"), o.get("exclusiveMaximum")));
    ext.sort();
    m.insert("ext".into(), json!(ext.iter().map(|(k, v)| json!({"k": k, "v": v})).collect::<Vec<_>>()));
    unmodelled.sort();
    m.insert("unmodelled".into(), json!(unmodelled));
    Value::Object(m)
}

pub fn normalise_defs(defs: Option<&Map<String, Value>>) -> Value {
    json!(defs.map(|d| d.iter().map(|(k, v)| json!({"name": k, "s": normalise(v)})).collect::<Vec<_>>()).unwrap_or_default())
}

// ---------------------------------------------------------------------------
// probes
// ---------------------------------------------------------------------------
pub fn resolve<'a>(defs: &'a Map<String, Value>, s: &'a Value, depth: usize) -> &'a Value {
    if depth > 8 {
        return s;
    }
    if let Some(r) = s.get("$ref").and_then(|x| x.as_str()) {
        if let Some(t) = defs.get(&ref_name(r)) {
            return resolve(defs, t, depth + 1);
        }
    }
    s
}

/// One instance that the schema accepts (best effort), used to build larger probes.
pub fn sample_valid(defs: &Map<String, Value>, s: &Value, depth: usize) -> Value {
    let s = resolve(defs, s, 0);
    if depth > 4 {
        return Value::Null;
    }
    if depth > 0 && s.get("nullable").and_then(|x| x.as_bool()) == Some(true) {
        return Value::Null;
    }
    if let Some(e) = s.get("enum").and_then(|e| e.as_array()).and_then(|a| a.first()) {
        return e.clone();
    }
    if let Some(c) = s.get("const") {
        return c.clone();
    }
    for comb in ["oneOf", "anyOf"] {
        if let Some(first) = s.get(comb).and_then(|a| a.as_array()).and_then(|a| a.first()) {
            return sample_valid(defs, first, depth + 1);
        }
    }
    if let Some(all) = s.get("allOf").and_then(|a| a.as_array()) {
        // merge object samples
        let mut merged = Map::new();
        let mut other = None;
        for sub in all {
            match sample_valid(defs, sub, depth + 1) {
                Value::Object(m) => merged.extend(m),
                v => other = Some(v),
            }
        }
        if !merged.is_empty() || other.is_none() {
            return Value::Object(merged);
        }
        return other.unwrap();
    }
    match s.get("type").and_then(|t| t.as_str()) {
        Some("null") => Value::Null,
        Some("boolean") => json!(true),
        Some("integer") | Some("number") => {
            // exclusive bounds come as numbers (JSON Schema) or as booleans next to minimum / maximum (OpenAPI 3.0)
            let excl = |k: &str| s.get(k).and_then(|x| x.as_bool()).unwrap_or(false);
            let lo = s.get("minimum").and_then(|x| x.as_f64()).map(|x| if excl("exclusiveMinimum") { x + 1.0 } else { x });
            let lo = match (lo, s.get("exclusiveMinimum").and_then(|x| x.as_f64()).map(|x| x + 1.0)) {
                (Some(a), Some(b)) => Some(a.max(b)),
                (a, b) => a.or(b),
            };
            let hi = s.get("maximum").and_then(|x| x.as_f64()).map(|x| if excl("exclusiveMaximum") { x - 1.0 } else { x });
            let hi = match (hi, s.get("exclusiveMaximum").and_then(|x| x.as_f64()).map(|x| x - 1.0)) {
                (Some(a), Some(b)) => Some(a.min(b)),
                (a, b) => a.or(b),
            };
            let mut v = lo.unwrap_or(1.0);
            if let Some(h) = hi {
                if v > h { v = h; }
            }
            if let Some(m) = s.get("multipleOf").and_then(|x| x.as_f64()) {
                if m > 0.0 { v = (v / m).ceil() * m; }
            }
            if v.fract() == 0.0 && v.abs() < 1e15 { json!(v as i64) } else { json!(v) }
        }
        Some("string") => {
            let min = s.get("minLength").and_then(|x| x.as_u64()).unwrap_or(0) as usize;
            let max = s.get("maxLength").and_then(|x| x.as_u64()).map(|x| x as usize);
            match s.get("format").and_then(|f| f.as_str()) {
                Some("uuid") => json!("6f1c2f3a-1111-4222-8333-444455556666"),
                Some("date-time") => json!("2024-01-02T03:04:05Z"),
                Some("date") => json!("2024-01-02"),
                Some("ipv4") | Some("ip") => json!("10.0.0.1"),
                Some("ipv6") => json!("::1"),
                _ => json!("s".repeat(match max { Some(m) => min.max(1).min(m), None => min.max(1) })),
            }
        }
        Some("array") => {
            let mut n = s.get("minItems").and_then(|x| x.as_u64()).unwrap_or(if depth == 0 { 1 } else { 0 }) as usize;
            if let Some(m) = s.get("maxItems").and_then(|x| x.as_u64()) {
                n = n.min(m as usize);
            }
            let item = s.get("items").map(|i| sample_valid(defs, i, depth + 1)).unwrap_or(json!(1));
            if s.get("uniqueItems").and_then(|x| x.as_bool()) == Some(true) && n > 1 {
                json!((0..n).map(|i| json!(i)).collect::<Vec<_>>())
            } else {
                json!(vec![item; n])
            }
        }
        Some("object") | None if s.get("properties").is_some() || s.get("required").is_some() || s.get("type").is_some() => {
            let mut o = Map::new();
            if let Some(p) = s.get("properties").and_then(|p| p.as_object()) {
                for (k, ps) in p {
                    o.insert(k.clone(), sample_valid(defs, ps, depth + 1));
                }
            }
            if o.is_empty() {
                if let Some(ap) = s.get("additionalProperties") {
                    if ap.is_object() {
                        o.insert("k".into(), sample_valid(defs, ap, depth + 1));
                    }
                }
            }
            // required keys that have no schema of their own: a value the additionalProperties schema
            // accepts (anything at all if there is none)
            for k in s.get("required").and_then(|r| r.as_array()).cloned().unwrap_or_default() {
                if let Some(k) = k.as_str() {
                    if !o.contains_key(k) {
                        let v = match s.get("additionalProperties") {
                            Some(ap) if ap.is_object() => sample_valid(defs, ap, depth + 1),
                            _ => json!(1),
                        };
                        o.insert(k.to_string(), v);
                    }
                }
            }
            Value::Object(o)
        }
        _ => json!({}),
    }
}

/// Boundary instances derived from the schema's own constants (recursively).
pub fn probes(defs: &Map<String, Value>, s: &Value, depth: usize, out: &mut Vec<Value>) {
    let s = resolve(defs, s, 0);
    probes_derived(defs, s, depth, out);
    // canonical values of every type
    for v in [Value::Null, json!(true), json!(0), json!(1), json!(-1), json!(1.5), json!(""), json!("a"),
              json!("zz-not-a-member"), json!([]), json!([1, 1]), json!(["x"]), json!({}), json!({"zz_extra": 1})] {
        out.push(v);
    }
}

fn probes_derived(defs: &Map<String, Value>, s: &Value, depth: usize, out: &mut Vec<Value>) {
    if depth > 3 {
        return;
    }
    let Some(o) = s.as_object() else { return };
    for key in ["minimum", "maximum", "exclusiveMinimum", "exclusiveMaximum", "multipleOf"] {
        if let Some(n) = o.get(key).and_then(|x| x.as_f64()) {
            if n.abs() < 1e9 && n.fract() == 0.0 {
                for d in [-1.0, 0.0, 1.0] {
                    out.push(json!((n + d) as i64));
                }
                out.push(json!((n * 2.0) as i64));
                out.push(json!((n * 3.0) as i64 + 1));
            }
        }
    }
    for key in ["minLength", "maxLength"] {
        if let Some(n) = o.get(key).and_then(|x| x.as_u64()) {
            if n < 5000 {
                for d in [-1i64, 0, 1] {
                    let len = n as i64 + d;
                    if len >= 0 {
                        out.push(json!("s".repeat(len as usize)));
                    }
                }
            }
        }
    }
    for key in ["enum"] {
        if let Some(a) = o.get(key).and_then(|x| x.as_array()) {
            out.extend(a.iter().cloned());
        }
    }
    if let Some(c) = o.get("const") {
        out.push(c.clone());
    }
    let valid = sample_valid(defs, s, 0);
    out.push(valid.clone());
    // arrays
    if o.get("type").and_then(|t| t.as_str()) == Some("array") || o.get("items").is_some() {
        let item = o.get("items").map(|i| sample_valid(defs, i, 0)).unwrap_or(json!(1));
        for key in ["minItems", "maxItems"] {
            if let Some(n) = o.get(key).and_then(|x| x.as_u64()) {
                if n < 200 {
                    for d in [-1i64, 0, 1] {
                        let len = n as i64 + d;
                        if len >= 0 {
                            out.push(json!((0..len).map(|i| if item.is_number() { json!(i) } else { item.clone() }).collect::<Vec<_>>()));
                        }
                    }
                }
            }
        }
        out.push(json!([item.clone()]));
        out.push(json!([item.clone(), item.clone()]));
        if let Some(i) = o.get("items") {
            let mut sub = vec![];
            probes(defs, i, depth + 1, &mut sub);
            // arrays of a legal length with one element replaced by an item probe
            let len = o.get("minItems").and_then(|x| x.as_u64()).unwrap_or(1).max(1) as usize;
            let unique = o.get("uniqueItems").and_then(|x| x.as_bool()) == Some(true);
            for p in sub.into_iter().take(160) {
                let mut arr: Vec<Value> = (0..len).map(|i| if unique && item.is_number() { json!(i + 100) } else { item.clone() }).collect();
                arr[0] = p;
                out.push(json!(arr));
            }
        }
    }
    // objects
    if let Some(Value::Object(vo)) = Some(&valid) {
        let props = o.get("properties").and_then(|p| p.as_object());
        // an extra property, of several types
        for extra in [json!(1), json!("x"), json!(null), json!({"a": 1})] {
            let mut with = vo.clone();
            with.insert("zz_extra".into(), extra);
            out.push(Value::Object(with));
        }
        // pass 0: each required key absent (also keys that have no schema of their own under `properties`)
        for k in o.get("required").and_then(|r| r.as_array()).cloned().unwrap_or_default() {
            if let Some(k) = k.as_str() {
                let mut without = vo.clone();
                without.remove(k);
                out.push(Value::Object(without));
            }
        }
        if let Some(props) = props {
            // pass 1: each property absent
            for (k, _) in props {
                let mut without = vo.clone();
                without.remove(k);
                out.push(Value::Object(without));
            }
            // pass 2: each property null / of a foreign type
            for (k, _) in props {
                for foreign in [Value::Null, json!(7), json!("zz"), json!([]), json!({}), json!(true)] {
                    let mut with = vo.clone();
                    with.insert(k.clone(), foreign);
                    out.push(Value::Object(with));
                }
            }
            // pass 3: each property with boundary / wrong values of its own schema
            for (k, ps) in props {
                let mut sub = vec![];
                probes(defs, ps, depth + 1, &mut sub);
                for p in sub.into_iter().take(170) {
                    let mut with = vo.clone();
                    with.insert(k.clone(), p);
                    out.push(Value::Object(with));
                }
            }
        }
        if let Some(ap) = o.get("additionalProperties") {
            if ap.is_object() {
                let mut sub = vec![];
                probes(defs, ap, depth + 1, &mut sub);
                for p in sub.into_iter().take(30) {
                    let mut with = vo.clone();
                    with.insert("zz_extra".into(), p);
                    out.push(Value::Object(with));
                }
            }
        }
        for key in ["minProperties", "maxProperties"] {
            if let Some(n) = o.get(key).and_then(|x| x.as_u64()) {
                for d in [-1i64, 0, 1] {
                    let len = n as i64 + d;
                    if (0..50).contains(&len) {
                        let mut m = Map::new();
                        for i in 0..len {
                            m.insert(format!("k{}", i), json!(1));
                        }
                        out.push(Value::Object(m));
                    }
                }
            }
        }
    }
    // combinators: probes of every branch
    for comb in ["allOf", "anyOf", "oneOf"] {
        if let Some(a) = o.get(comb).and_then(|x| x.as_array()) {
            for sub in a {
                let mut subp = vec![];
                probes(defs, sub, depth + 1, &mut subp);
                out.extend(subp.into_iter().take(150));
            }
        }
    }
    if let Some(n) = o.get("not") {
        let mut subp = vec![];
        probes(defs, n, depth + 1, &mut subp);
        out.extend(subp.into_iter().take(40));
    }
}

// ---------------------------------------------------------------------------
// mutants: the schema with one evaluated keyword occurrence removed / altered
// ---------------------------------------------------------------------------
const EVALUATED: &[&str] = &["type", "enum", "const", "minimum", "maximum", "exclusiveMinimum", "exclusiveMaximum",
    "multipleOf", "minLength", "maxLength", "minItems", "maxItems", "uniqueItems", "required",
    "additionalProperties", "minProperties", "maxProperties", "nullable", "not"];

pub fn mutants(s: &Value, path: &str, out: &mut Vec<(String, Value)>) {
    let Some(o) = s.as_object() else { return };
    for k in o.keys() {
        if EVALUATED.contains(&k.as_str()) {
            // `nullable: false`, `uniqueItems: false`, `additionalProperties: true` say nothing
            match (k.as_str(), &o[k]) {
                ("nullable", Value::Bool(false)) | ("uniqueItems", Value::Bool(false)) | ("additionalProperties", Value::Bool(true)) => continue,
                ("exclusiveMinimum", Value::Bool(_)) | ("exclusiveMaximum", Value::Bool(_)) => continue,
                // a lower size limit of zero says nothing
                ("minItems", v) | ("minLength", v) | ("minProperties", v) if v.as_u64() == Some(0) => continue,
                // `type` next to `enum`/`const` is redundant: removing it gives an equivalent schema
                ("type", _) if o.contains_key("enum") || o.contains_key("const") => continue,
                _ => {}
            }
            if k == "required" {
                if let Some(a) = o[k].as_array() {
                    for i in 0..a.len() {
                        let mut m = o.clone();
                        let mut r = a.clone();
                        r.remove(i);
                        m.insert(k.clone(), json!(r));
                        out.push((format!("{}/required[{}] removed", path, a[i]), Value::Object(m)));
                    }
                }
                continue;
            }
            if k == "enum" {
                if let Some(a) = o[k].as_array() {
                    if a.len() > 1 {
                        let mut m = o.clone();
                        m.insert(k.clone(), json!(a[1..].to_vec()));
                        out.push((format!("{}/enum first member removed", path), Value::Object(m)));
                    }
                }
            }
            let mut m = o.clone();
            m.remove(k);
            out.push((format!("{}/{} removed", path, k), Value::Object(m)));
        }
    }
    // recurse (the mutant is the whole schema with the nested mutation applied)
    let recurse_map = |key: &str, out: &mut Vec<(String, Value)>| {
        if let Some(p) = o.get(key).and_then(|x| x.as_object()) {
            for (pk, ps) in p {
                let mut sub = vec![];
                mutants(ps, &format!("{}/{}/{}", path, key, pk), &mut sub);
                for (d, ms) in sub {
                    let mut m = o.clone();
                    let mut pm = p.clone();
                    pm.insert(pk.clone(), ms);
                    m.insert(key.to_string(), Value::Object(pm));
                    out.push((d, Value::Object(m)));
                }
            }
        }
    };
    recurse_map("properties", out);
    for key in ["items", "additionalProperties", "not"] {
        if let Some(sub_s) = o.get(key) {
            // no element can exist: constraints on elements are vacuous
            if key == "items" && o.get("maxItems").and_then(|x| x.as_u64()) == Some(0) {
                continue;
            }
            if sub_s.is_object() {
                let mut sub = vec![];
                mutants(sub_s, &format!("{}/{}", path, key), &mut sub);
                for (d, ms) in sub {
                    let mut m = o.clone();
                    m.insert(key.to_string(), ms);
                    out.push((d, Value::Object(m)));
                }
            }
        }
    }
    for key in ["allOf", "anyOf", "oneOf"] {
        if let Some(a) = o.get(key).and_then(|x| x.as_array()) {
            for (i, sub_s) in a.iter().enumerate() {
                let mut sub = vec![];
                mutants(sub_s, &format!("{}/{}[{}]", path, key, i), &mut sub);
                for (d, ms) in sub {
                    let mut m = o.clone();
                    let mut aa = a.clone();
                    aa[i] = ms;
                    m.insert(key.to_string(), json!(aa));
                    out.push((d, Value::Object(m)));
                }
            }
            // drop one branch of the combinator
            if a.len() > 1 {
                let mut m = o.clone();
                m.insert(key.to_string(), json!(a[1..].to_vec()));
                out.push((format!("{}/{} first branch removed", path, key), Value::Object(m)));
            }
        }
    }
}
