//! Shared helpers for the verification harness: seeded instantiation of the
//! symbolic tokens that TLC vectors carry, an independent semver-precedence
//! comparator, percent-encoding, and small JSON helpers.

use rand::rngs::StdRng;
use rand::Rng;
use rand::SeedableRng;
use serde_json::Value;
use std::collections::BTreeMap;

pub mod httpc;
pub mod schema_ast;

pub fn seed_from_env() -> u64 {
    std::env::var("VERIF_SEED").ok().and_then(|s| s.parse().ok()).unwrap_or(1)
}

pub fn rng(seed: u64, salt: u64) -> StdRng {
    StdRng::seed_from_u64(seed.wrapping_mul(0x9E37_79B9_7F4A_7C15).wrapping_add(salt))
}

// ---------------------------------------------------------------------------
// semver: our own precedence comparator (semver.org section 11); versions are
// generated as (major, minor, patch, prerelease identifiers), no build
// metadata (DESIGN section 8 rule 3).
// ---------------------------------------------------------------------------
#[derive(Clone, Debug, PartialEq, Eq)]
pub enum PreId {
    Num(u64),
    Alpha(String),
}

#[derive(Clone, Debug, PartialEq, Eq)]
pub struct Sv {
    pub major: u64,
    pub minor: u64,
    pub patch: u64,
    pub pre: Vec<PreId>,
}

impl Sv {
    pub fn to_string(&self) -> String {
        let mut s = format!("{}.{}.{}", self.major, self.minor, self.patch);
        if !self.pre.is_empty() {
            s.push('-');
            let ids: Vec<String> = self
                .pre
                .iter()
                .map(|p| match p {
                    PreId::Num(n) => n.to_string(),
                    PreId::Alpha(a) => a.clone(),
                })
                .collect();
            s.push_str(&ids.join("."));
        }
        s
    }
    pub fn to_semver(&self) -> semver::Version {
        semver::Version::parse(&self.to_string()).expect("generated version must parse")
    }
}

pub fn sv_cmp(a: &Sv, b: &Sv) -> std::cmp::Ordering {
    use std::cmp::Ordering::*;
    for (x, y) in [(a.major, b.major), (a.minor, b.minor), (a.patch, b.patch)] {
        if x != y {
            return x.cmp(&y);
        }
    }
    match (a.pre.is_empty(), b.pre.is_empty()) {
        (true, true) => return Equal,
        (true, false) => return Greater, // release > pre-release
        (false, true) => return Less,
        _ => {}
    }
    for i in 0..a.pre.len().min(b.pre.len()) {
        let o = match (&a.pre[i], &b.pre[i]) {
            (PreId::Num(x), PreId::Num(y)) => x.cmp(y),
            (PreId::Num(_), PreId::Alpha(_)) => Less,
            (PreId::Alpha(_), PreId::Num(_)) => Greater,
            (PreId::Alpha(x), PreId::Alpha(y)) => x.as_bytes().cmp(y.as_bytes()),
        };
        if o != Equal {
            return o;
        }
    }
    a.pre.len().cmp(&b.pre.len())
}

pub fn random_sv(r: &mut StdRng) -> Sv {
    let small = |r: &mut StdRng| -> u64 {
        match r.gen_range(0..10) {
            0 => 0,
            1 => r.gen_range(0..1000),
            _ => r.gen_range(0..4),
        }
    };
    let mut pre = vec![];
    if r.gen_bool(0.5) {
        let n = r.gen_range(1..=3);
        for _ in 0..n {
            if r.gen_bool(0.5) {
                pre.push(PreId::Num(r.gen_range(0..12)));
            } else {
                let words = ["alpha", "beta", "rc", "a", "b", "x-y", "0a", "A", "Z9"];
                pre.push(PreId::Alpha(words[r.gen_range(0..words.len())].to_string()));
            }
        }
    }
    Sv { major: small(r), minor: small(r), patch: small(r), pre }
}

/// A strictly increasing chain of `n` versions (by our comparator).
pub fn version_chain(r: &mut StdRng, n: usize) -> Vec<Sv> {
    loop {
        let mut v: Vec<Sv> = (0..n * 3).map(|_| random_sv(r)).collect();
        v.sort_by(sv_cmp);
        v.dedup_by(|a, b| sv_cmp(a, b) == std::cmp::Ordering::Equal);
        // the smallest possible version would make "until v" empty; skip it
        v.retain(|x| !(x.major == 0 && x.minor == 0 && x.patch == 0 && !x.pre.is_empty()));
        if v.len() >= n {
            // choose n of them, keeping order
            let mut idx: Vec<usize> = (0..v.len()).collect();
            while idx.len() > n {
                let k = r.gen_range(0..idx.len());
                idx.remove(k);
            }
            return idx.into_iter().map(|i| v[i].clone()).collect();
        }
    }
}

// ---------------------------------------------------------------------------
// strings
// ---------------------------------------------------------------------------
const UNRESERVED: &[u8] = b"abcdefghijklmnopqrstuvwxyzABCDEFGHIJKLMNOPQRSTUVWXYZ0123456789-_~.";

pub fn is_unreserved(b: u8) -> bool {
    UNRESERVED.contains(&b)
}

/// Percent-encode one path segment; unreserved characters are left alone
/// (and sometimes encoded anyway), everything else becomes %XX with random
/// hex case.
pub fn pct_encode_segment(r: &mut StdRng, s: &str) -> String {
    let mut out = String::new();
    for &b in s.as_bytes() {
        // RFC 3986 pchar: unreserved, sub-delims, ':' and '@' may appear literally in a path segment and
        // stand for themselves there ('+' is a plus sign; only form-encoded data reads it as a space)
        let literal_ok = is_unreserved(b) || b"!$&'()*+,;=:@".contains(&b);
        if literal_ok && (if is_unreserved(b) { !r.gen_bool(0.1) } else { r.gen_bool(0.5) }) {
            out.push(b as char);
        } else {
            let h = if r.gen_bool(0.5) { format!("%{:02x}", b) } else { format!("%{:02X}", b) };
            out.push_str(&h);
        }
    }
    out
}

pub fn pct_encode_plain(s: &str) -> String {
    let mut out = String::new();
    for &b in s.as_bytes() {
        if is_unreserved(b) {
            out.push(b as char);
        } else {
            out.push_str(&format!("%{:02X}", b));
        }
    }
    out
}

/// A random literal segment that is legal in a route template: non-empty, no
/// '/', not brace-delimited, not a dot-segment.
pub fn random_literal(r: &mut StdRng) -> String {
    let specials = [" ", "%", "?", "#", "é", "日", "+", "&", "=", ":", "@", "\"", "%2F", "ß"];
    loop {
        let n = r.gen_range(1..=5);
        let mut s = String::new();
        for _ in 0..n {
            if r.gen_bool(0.25) {
                s.push_str(specials[r.gen_range(0..specials.len())]);
            } else {
                s.push(UNRESERVED[r.gen_range(0..UNRESERVED.len())] as char);
            }
        }
        if s == "." || s == ".." || s.starts_with('{') || s.ends_with('}') {
            continue;
        }
        return s;
    }
}

pub fn random_varname(r: &mut StdRng) -> String {
    let pool = ["x", "y", "id", "type", "_", "project_id", "é", "a-b", "N1", "rest", "q"];
    pool[r.gen_range(0..pool.len())].to_string()
}

/// Map each symbolic token to a distinct concrete string.
pub fn instantiate<F: FnMut(&mut StdRng) -> String>(
    r: &mut StdRng,
    tokens: &[String],
    plain: bool,
    mut gen: F,
    avoid: &[String],
) -> BTreeMap<String, String> {
    let mut m = BTreeMap::new();
    let mut used: Vec<String> = avoid.to_vec();
    for t in tokens {
        if plain {
            m.insert(t.clone(), t.clone());
            used.push(t.clone());
            continue;
        }
        loop {
            let c = gen(r);
            if !used.contains(&c) {
                used.push(c.clone());
                m.insert(t.clone(), c);
                break;
            }
        }
    }
    m
}

// ---------------------------------------------------------------------------
// JSON helpers
// ---------------------------------------------------------------------------
pub fn jstr(v: &Value) -> String {
    v.as_str().map(|s| s.to_string()).unwrap_or_else(|| v.to_string())
}

/// TLC prints an empty function as `[]`; treat arrays as empty objects.
pub fn jobj(v: &Value) -> serde_json::Map<String, Value> {
    match v {
        Value::Object(m) => m.clone(),
        _ => serde_json::Map::new(),
    }
}

pub fn jarr(v: &Value) -> Vec<Value> {
    match v {
        Value::Array(a) => a.clone(),
        _ => vec![],
    }
}

/// All `"$ref"` strings in a JSON document.
pub fn collect_refs(v: &Value, out: &mut Vec<String>) {
    match v {
        Value::Object(m) => {
            for (k, x) in m {
                if k == "$ref" {
                    if let Some(s) = x.as_str() {
                        out.push(s.to_string());
                    }
                }
                collect_refs(x, out);
            }
        }
        Value::Array(a) => {
            for x in a {
                collect_refs(x, out);
            }
        }
        _ => {}
    }
}

/// Resolve a local JSON pointer reference like `#/components/schemas/Foo`.
pub fn resolve_ref<'a>(doc: &'a Value, r: &str) -> Option<&'a Value> {
    let p = r.strip_prefix('#')?;
    doc.pointer(p)
}

pub fn catch<F: FnOnce() -> R + std::panic::UnwindSafe, R>(f: F) -> Result<R, String> {
    match std::panic::catch_unwind(f) {
        Ok(r) => Ok(r),
        Err(e) => {
            let msg = if let Some(s) = e.downcast_ref::<&str>() {
                s.to_string()
            } else if let Some(s) = e.downcast_ref::<String>() {
                s.clone()
            } else {
                "panic".to_string()
            };
            Err(msg)
        }
    }
}

pub fn quiet_panics() {
    if std::env::var("VERIF_LOUD").is_ok() {
        return;
    }
    std::panic::set_hook(Box::new(|_| {}));
}


/// A driver's whole campaign has a wall-clock budget (VERIF_BUDGET_S, default 900 s): a change to the code under
/// test that makes every request run into a timeout must not turn a ten-second check into hours.  When the budget
/// is used up the trace recorded so far is written and the driver stops; the (shorter) trace is validated as usual
/// and `<out>.truncated` tells the orchestration that it is a prefix.
pub fn campaign_budget(out: &str) {
    let secs: u64 = std::env::var("VERIF_BUDGET_S").ok().and_then(|s| s.parse().ok()).unwrap_or(900);
    let out = out.to_string();
    let _ = std::fs::remove_file(format!("{}.truncated", out));
    std::thread::spawn(move || {
        std::thread::sleep(std::time::Duration::from_secs(secs));
        let lines = dropshot::verif::take_memory();
        let _ = std::fs::write(&out, lines.join("\n") + "\n");
        let _ = std::fs::write(format!("{}.truncated", out), format!("budget of {} s used up after {} events\n", secs, lines.len()));
        println!("{}", serde_json::json!({"events": lines.len(), "stopped": "budget"}));
        std::process::exit(0);
    });
}
