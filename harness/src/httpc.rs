//! A small raw HTTP/1.1 client over tokio `TcpStream`: exact control of the
//! bytes sent (truncation, chunk boundaries, pipelining, disconnect point) and
//! a minimal, strict response parser that decides whether what came back is
//! a syntactically valid HTTP/1.1 response.

use std::time::Duration;
use tokio::io::AsyncReadExt;
use tokio::io::AsyncWriteExt;
use tokio::net::TcpStream;

#[derive(Debug, Clone, Default)]
pub struct Resp {
    pub status: u16,
    pub reason: String,
    pub headers: Vec<(String, String)>,
    pub body: Vec<u8>,
    /// the bytes parse as one complete, well-formed response
    pub wellformed: bool,
    /// the body was received completely
    pub complete: bool,
    /// nothing at all was received before EOF
    pub empty: bool,
    pub problem: String,
}

impl Resp {
    pub fn header(&self, name: &str) -> Option<&str> {
        self.headers
            .iter()
            .find(|(k, _)| k.eq_ignore_ascii_case(name))
            .map(|(_, v)| v.as_str())
    }
    pub fn headers_all(&self, name: &str) -> Vec<String> {
        self.headers
            .iter()
            .filter(|(k, _)| k.eq_ignore_ascii_case(name))
            .map(|(_, v)| v.clone())
            .collect()
    }
}

pub fn build_request(
    method: &str,
    target: &str,
    headers: &[(String, String)],
    body: Option<&[u8]>,
) -> Vec<u8> {
    let mut v = Vec::new();
    v.extend_from_slice(format!("{} {} HTTP/1.1\r\n", method, target).as_bytes());
    let mut has_host = false;
    for (k, val) in headers {
        if k.eq_ignore_ascii_case("host") {
            has_host = true;
        }
        v.extend_from_slice(k.as_bytes());
        v.extend_from_slice(b": ");
        v.extend_from_slice(val.as_bytes());
        v.extend_from_slice(b"\r\n");
    }
    if !has_host {
        v.extend_from_slice(b"host: localhost\r\n");
    }
    if let Some(b) = body {
        if !headers.iter().any(|(k, _)| {
            k.eq_ignore_ascii_case("content-length") || k.eq_ignore_ascii_case("transfer-encoding")
        }) {
            v.extend_from_slice(format!("content-length: {}\r\n", b.len()).as_bytes());
        }
        v.extend_from_slice(b"\r\n");
        v.extend_from_slice(b);
    } else {
        v.extend_from_slice(b"\r\n");
    }
    v
}

/// Encode a body with chunked transfer coding, using the given chunk sizes
/// (the remainder, if any, goes into a last chunk); optional chunk extension
/// and trailer.
pub fn chunked_body(data: &[u8], sizes: &[usize], ext: bool, trailer: bool) -> Vec<u8> {
    let mut out = Vec::new();
    let mut pos = 0;
    let mut push = |out: &mut Vec<u8>, chunk: &[u8]| {
        if chunk.is_empty() {
            return;
        }
        if ext {
            out.extend_from_slice(format!("{:x};ext=1\r\n", chunk.len()).as_bytes());
        } else {
            out.extend_from_slice(format!("{:X}\r\n", chunk.len()).as_bytes());
        }
        out.extend_from_slice(chunk);
        out.extend_from_slice(b"\r\n");
    };
    for &s in sizes {
        if pos >= data.len() {
            break;
        }
        let end = (pos + s).min(data.len());
        push(&mut out, &data[pos..end]);
        pos = end;
    }
    if pos < data.len() {
        push(&mut out, &data[pos..]);
    }
    out.extend_from_slice(b"0\r\n");
    if trailer {
        out.extend_from_slice(b"x-trailer: 1\r\n");
    }
    out.extend_from_slice(b"\r\n");
    out
}

fn find(hay: &[u8], needle: &[u8]) -> Option<usize> {
    hay.windows(needle.len()).position(|w| w == needle)
}

fn is_token(s: &str) -> bool {
    !s.is_empty()
        && s.bytes().all(|b| b.is_ascii_alphanumeric() || b"!#$%&'*+-.^_`|~".contains(&b))
}

/// Incremental response reader: keeps leftover bytes for pipelined responses.
pub struct Reader {
    pub buf: Vec<u8>,
}

impl Reader {
    pub fn new() -> Self {
        Reader { buf: Vec::new() }
    }

    async fn fill<S: tokio::io::AsyncRead + Unpin>(&mut self, s: &mut S, deadline: tokio::time::Instant) -> Result<usize, String> {
        let mut tmp = [0u8; 16384];
        match tokio::time::timeout_at(deadline, s.read(&mut tmp)).await {
            Err(_) => Err("timeout".to_string()),
            Ok(Err(e)) => Err(format!("io: {}", e.kind())),
            Ok(Ok(n)) => {
                self.buf.extend_from_slice(&tmp[..n]);
                Ok(n)
            }
        }
    }

    /// Read one response.  `head_only`: the request was HEAD (no body follows).
    pub async fn read_response<S: tokio::io::AsyncRead + Unpin>(
        &mut self,
        s: &mut S,
        head_only: bool,
        timeout: Duration,
    ) -> Resp {
        let deadline = tokio::time::Instant::now() + timeout;
        let mut r = Resp::default();
        // ---- head ----
        let head_end = loop {
            if let Some(p) = find(&self.buf, b"\r\n\r\n") {
                break p;
            }
            if self.buf.len() > 1 << 20 {
                r.problem = "head too large".into();
                return r;
            }
            match self.fill(s, deadline).await {
                Ok(0) => {
                    r.empty = self.buf.is_empty();
                    r.problem = "eof before end of head".into();
                    return r;
                }
                Ok(_) => {}
                Err(e) => {
                    r.empty = self.buf.is_empty();
                    r.problem = e;
                    return r;
                }
            }
        };
        let head = self.buf[..head_end].to_vec();
        self.buf.drain(..head_end + 4);
        let text = match String::from_utf8(head) {
            Ok(t) => t,
            Err(_) => {
                r.problem = "head not utf8".into();
                return r;
            }
        };
        let mut lines = text.split("\r\n");
        let status_line = lines.next().unwrap_or("");
        let mut ok = true;
        let parts: Vec<&str> = status_line.splitn(3, ' ').collect();
        if parts.len() < 2 || !(parts[0] == "HTTP/1.1" || parts[0] == "HTTP/1.0") {
            ok = false;
            r.problem = format!("bad status line {:?}", status_line);
        } else if parts[1].len() != 3 || !parts[1].bytes().all(|b| b.is_ascii_digit()) {
            ok = false;
            r.problem = format!("bad status code {:?}", status_line);
        } else {
            r.status = parts[1].parse().unwrap_or(0);
            r.reason = parts.get(2).unwrap_or(&"").to_string();
            if r.status < 100 || r.status > 599 {
                ok = false;
                r.problem = "status out of range".into();
            }
        }
        for l in lines {
            match l.find(':') {
                Some(i) if is_token(&l[..i]) => {
                    let v = l[i + 1..].trim_matches(|c| c == ' ' || c == '\t');
                    if v.bytes().any(|b| b == b'\r' || b == b'\n' || b == 0) {
                        ok = false;
                        r.problem = "bad header value".into();
                    }
                    r.headers.push((l[..i].to_string(), v.to_string()));
                }
                _ => {
                    ok = false;
                    r.problem = format!("bad header line {:?}", l);
                }
            }
        }
        if !ok {
            return r;
        }
        // ---- body ----
        let no_body = head_only || r.status / 100 == 1 || r.status == 204 || r.status == 304;
        let te = r.header("transfer-encoding").map(|s| s.to_ascii_lowercase());
        let cl = r.header("content-length").map(|s| s.to_string());
        if r.headers_all("content-length").len() > 1 {
            r.problem = "duplicate content-length".into();
            return r;
        }
        if no_body {
            r.complete = true;
            r.wellformed = true;
            return r;
        }
        if let Some(te) = te {
            if te != "chunked" {
                r.problem = format!("unsupported transfer-encoding {}", te);
                return r;
            }
            loop {
                // chunk-size line
                let line_end = loop {
                    if let Some(p) = find(&self.buf, b"\r\n") {
                        break p;
                    }
                    match self.fill(s, deadline).await {
                        Ok(0) => {
                            r.problem = "eof in chunk header".into();
                            return r;
                        }
                        Ok(_) => {}
                        Err(e) => {
                            r.problem = e;
                            return r;
                        }
                    }
                };
                let line = String::from_utf8_lossy(&self.buf[..line_end]).to_string();
                self.buf.drain(..line_end + 2);
                let size_str = line.split(';').next().unwrap_or("").trim();
                let size = match usize::from_str_radix(size_str, 16) {
                    Ok(n) => n,
                    Err(_) => {
                        r.problem = format!("bad chunk size {:?}", line);
                        return r;
                    }
                };
                if size == 0 {
                    // trailers until empty line
                    loop {
                        let e = loop {
                            if let Some(p) = find(&self.buf, b"\r\n") {
                                break p;
                            }
                            match self.fill(s, deadline).await {
                                Ok(0) => {
                                    r.problem = "eof in trailers".into();
                                    return r;
                                }
                                Ok(_) => {}
                                Err(e) => {
                                    r.problem = e;
                                    return r;
                                }
                            }
                        };
                        let empty = e == 0;
                        self.buf.drain(..e + 2);
                        if empty {
                            break;
                        }
                    }
                    r.complete = true;
                    r.wellformed = true;
                    return r;
                }
                while self.buf.len() < size + 2 {
                    match self.fill(s, deadline).await {
                        Ok(0) => {
                            r.problem = "eof in chunk".into();
                            return r;
                        }
                        Ok(_) => {}
                        Err(e) => {
                            r.problem = e;
                            return r;
                        }
                    }
                }
                r.body.extend_from_slice(&self.buf[..size]);
                if &self.buf[size..size + 2] != b"\r\n" {
                    r.problem = "chunk not terminated".into();
                    return r;
                }
                self.buf.drain(..size + 2);
            }
        } else if let Some(cl) = cl {
            let n: usize = match cl.parse() {
                Ok(n) => n,
                Err(_) => {
                    r.problem = "bad content-length".into();
                    return r;
                }
            };
            while self.buf.len() < n {
                match self.fill(s, deadline).await {
                    Ok(0) => {
                        r.body = std::mem::take(&mut self.buf);
                        r.problem = "eof in body".into();
                        return r;
                    }
                    Ok(_) => {}
                    Err(e) => {
                        r.problem = e;
                        return r;
                    }
                }
            }
            r.body = self.buf.drain(..n).collect();
            r.complete = true;
            r.wellformed = true;
            r
        } else {
            // body delimited by close
            loop {
                match self.fill(s, deadline).await {
                    Ok(0) => break,
                    Ok(_) => {}
                    Err(e) => {
                        r.problem = e;
                        return r;
                    }
                }
            }
            r.body = std::mem::take(&mut self.buf);
            r.complete = true;
            r.wellformed = true;
            r
        }
    }
}

pub async fn connect(addr: std::net::SocketAddr) -> std::io::Result<TcpStream> {
    let s = TcpStream::connect(addr).await?;
    s.set_nodelay(true)?;
    Ok(s)
}

/// One-shot request on a fresh connection.
// ---------------------------------------------------------------------------
// A server that has died or wedged is a finding, not a reason to spend ten or twenty seconds of timeout
// on each of the thousands of requests still to come: after `limit` unanswered requests in a row the
// driver writes what it has recorded and stops (the trace then ends in unanswered requests, which the
// trace specification does not accept).
// ---------------------------------------------------------------------------
static UNANSWERED_IN_A_ROW: std::sync::atomic::AtomicU32 = std::sync::atomic::AtomicU32::new(0);
static TRACE_OUT: std::sync::OnceLock<String> = std::sync::OnceLock::new();

/// Where the driver's trace goes if it has to stop early.
pub fn stop_early_into(path: &str) {
    let _ = TRACE_OUT.set(path.to_string());
}

/// Record whether a request was answered at all; stops the process after 25 unanswered in a row.
pub fn note_answered(answered: bool) {
    use std::sync::atomic::Ordering;
    if answered {
        UNANSWERED_IN_A_ROW.store(0, Ordering::SeqCst);
        return;
    }
    if UNANSWERED_IN_A_ROW.fetch_add(1, Ordering::SeqCst) + 1 == 25 {
        if let Some(out) = TRACE_OUT.get() {
            dropshot::verif::emit("campaign_stopped", serde_json::json!({"why": "25 requests in a row went unanswered"}));
            let lines = dropshot::verif::take_memory();
            let _ = std::fs::write(out, lines.join("\n") + "\n");
            println!("{}", serde_json::json!({"events": lines.len(), "stopped": true}));
            std::process::exit(0);
        }
    }
}

pub async fn oneshot(
    addr: std::net::SocketAddr,
    req: &[u8],
    head_only: bool,
    timeout: Duration,
) -> Result<Resp, String> {
    let mut s = match connect(addr).await {
        Ok(s) => s,
        Err(e) => {
            note_answered(false);
            return Err(format!("connect: {}", e.kind()));
        }
    };
    s.write_all(req).await.map_err(|e| format!("write: {}", e.kind()))?;
    let mut rd = Reader::new();
    let resp = rd.read_response(&mut s, head_only, timeout).await;
    note_answered(resp.status != 0);
    Ok(resp)
}
