//! (T) Driver for Lifecycle.tla: runs a real dropshot server per episode,
//! executes a seeded, randomly interleaved plan of client / gate / shutdown
//! steps against it, and records driver, handler and framework events in one
//! totally ordered trace (dropshot::verif::emit).  The trace is validated by
//! TraceLifecycle.tla.
//!
//! usage: drive_lifecycle <cancel|detached> <episodes> <out.ndjson>

use dropshot::endpoint;
use dropshot::ApiDescription;
use dropshot::ConfigDropshot;
use dropshot::HandlerTaskMode;
use dropshot::HttpError;
use dropshot::HttpResponseOk;
use dropshot::Path;
use dropshot::Query;
use dropshot::RequestContext;
use dropshot::ServerBuilder;
use dropshot::TypedBody;
use rand::rngs::StdRng;
use rand::seq::SliceRandom;
use rand::Rng;
use schemars::JsonSchema;
use serde::Deserialize;
use serde_json::json;
use std::collections::HashMap;
use std::sync::Arc;
use std::sync::Mutex;
use std::time::Duration;
use tokio::io::AsyncWriteExt;
use tokio::net::TcpStream;
use tokio::sync::Semaphore;
use verif_harness::httpc;
use verif_harness::*;

const AWAIT: Duration = Duration::from_secs(10);

fn emit(ev: &str, v: serde_json::Value) {
    dropshot::verif::emit(ev, v);
}

// ---------------------------------------------------------------------------
// server side
// ---------------------------------------------------------------------------
#[derive(Default)]
struct ReqState {
    gate1: Option<Arc<Semaphore>>,
    gate2: Option<Arc<Semaphore>>,
    phase: &'static str, // "", "entered", "stepped", "completed", "dropped", "panicked"
}

struct Ctx {
    reqs: Mutex<HashMap<String, ReqState>>,
    changed: tokio::sync::Notify,
}

impl Ctx {
    fn gates(&self, n: &str) -> (Arc<Semaphore>, Arc<Semaphore>) {
        let mut m = self.reqs.lock().unwrap();
        let st = m.entry(n.to_string()).or_default();
        let g1 = st.gate1.get_or_insert_with(|| Arc::new(Semaphore::new(0))).clone();
        let g2 = st.gate2.get_or_insert_with(|| Arc::new(Semaphore::new(0))).clone();
        (g1, g2)
    }
    fn set_phase(&self, n: &str, p: &'static str) {
        let mut m = self.reqs.lock().unwrap();
        m.entry(n.to_string()).or_default().phase = p;
        drop(m);
        self.changed.notify_waiters();
    }
    fn phase(&self, n: &str) -> &'static str {
        self.reqs.lock().unwrap().get(n).map(|s| s.phase).unwrap_or("")
    }
    async fn await_phase(&self, n: &str, wanted: &[&str]) -> bool {
        self.await_phase_for(n, wanted, AWAIT).await
    }
    async fn await_phase_for(&self, n: &str, wanted: &[&str], t: Duration) -> bool {
        let deadline = tokio::time::Instant::now() + t;
        loop {
            let notified = self.changed.notified();
            if wanted.contains(&self.phase(n)) {
                return true;
            }
            if tokio::time::timeout_at(deadline, notified).await.is_err() {
                return wanted.contains(&self.phase(n));
            }
        }
    }
}

#[derive(Deserialize, JsonSchema)]
struct NPath {
    n: String,
}
#[derive(Deserialize, JsonSchema)]
struct NQuery {
    #[allow(dead_code)]
    k: Option<u8>,
}
#[derive(Deserialize, JsonSchema)]
struct NBody {
    #[allow(dead_code)]
    x: u32,
}

/// Emits handler_dropped if the handler future is dropped before completing.
struct DropGuard {
    ctx: Arc<CtxRef>,
    n: String,
    id: String,
    armed: bool,
}
struct CtxRef(Arc<Ctx>);
impl Drop for DropGuard {
    fn drop(&mut self) {
        if self.armed {
            if std::thread::panicking() {
                return;
            }
            emit("handler_dropped", json!({"id": self.id, "n": self.n}));
            self.ctx.0.set_phase(&self.n, "dropped");
        }
    }
}

async fn gated(
    ctx: Arc<Ctx>,
    id: String,
    n: String,
    kind: &'static str,
) -> Result<HttpResponseOk<String>, HttpError> {
    let (g1, g2) = ctx.gates(&n);
    emit("handler_enter", json!({"id": id, "n": n}));
    ctx.set_phase(&n, "entered");
    let mut guard = DropGuard { ctx: Arc::new(CtxRef(ctx.clone())), n: n.clone(), id: id.clone(), armed: true };
    g1.acquire().await.unwrap().forget();
    emit("handler_step", json!({"id": id, "n": n}));
    ctx.set_phase(&n, "stepped");
    g2.acquire().await.unwrap().forget();
    match kind {
        "panic" => {
            guard.armed = false;
            emit("handler_panic", json!({"id": id, "n": n}));
            ctx.set_phase(&n, "panicked");
            panic!("harness handler panics on purpose");
        }
        "err" => {
            guard.armed = false;
            emit("handler_complete", json!({"id": id, "n": n, "status": 500}));
            ctx.set_phase(&n, "completed");
            Err(HttpError::for_internal_error(format!("internal-{}", n)))
        }
        _ => {
            guard.armed = false;
            emit("handler_complete", json!({"id": id, "n": n, "status": 200}));
            ctx.set_phase(&n, "completed");
            Ok(HttpResponseOk(n))
        }
    }
}

#[endpoint { method = GET, path = "/gate/{n}" }]
async fn ep_gate_handler(
    rqctx: RequestContext<Arc<Ctx>>,
    path: Path<NPath>,
    _q: Query<NQuery>,
) -> Result<HttpResponseOk<String>, HttpError> {
    gated(rqctx.context().clone(), rqctx.request_id.clone(), path.into_inner().n, "ok").await
}

// Like /gate, but the handler gives up its RequestContext before it waits.
#[endpoint { method = GET, path = "/gatedrop/{n}" }]
async fn ep_gatedrop_handler(
    rqctx: RequestContext<Arc<Ctx>>,
    path: Path<NPath>,
) -> Result<HttpResponseOk<String>, HttpError> {
    let ctx = rqctx.context().clone();
    let id = rqctx.request_id.clone();
    drop(rqctx);
    gated(ctx, id, path.into_inner().n, "ok").await
}

#[endpoint { method = GET, path = "/panic/{n}" }]
async fn ep_panic_handler(
    rqctx: RequestContext<Arc<Ctx>>,
    path: Path<NPath>,
) -> Result<HttpResponseOk<String>, HttpError> {
    gated(rqctx.context().clone(), rqctx.request_id.clone(), path.into_inner().n, "panic").await
}

#[endpoint { method = GET, path = "/err/{n}" }]
async fn ep_err_handler(
    rqctx: RequestContext<Arc<Ctx>>,
    path: Path<NPath>,
) -> Result<HttpResponseOk<String>, HttpError> {
    gated(rqctx.context().clone(), rqctx.request_id.clone(), path.into_inner().n, "err").await
}

// A handler that relays a response it built itself, already carrying an x-request-id of its own (as a proxy
// relaying an upstream response would): the framework's id must replace it (C13: exactly one, equal to the
// request's id).
#[endpoint { method = GET, path = "/relay/{n}" }]
async fn ep_relay_handler(
    rqctx: RequestContext<Arc<Ctx>>,
    path: Path<NPath>,
) -> Result<http::Response<dropshot::Body>, HttpError> {
    let n = path.into_inner().n;
    gated(rqctx.context().clone(), rqctx.request_id.clone(), n.clone(), "ok").await?;
    Ok(http::Response::builder()
        .status(200)
        .header("x-request-id", format!("upstream-{}", n))
        .header("content-type", "application/json")
        .body(dropshot::Body::from(format!("\"{}\"", n)))
        .unwrap())
}

#[endpoint { method = PUT, path = "/body/{n}" }]
async fn ep_body_handler(
    rqctx: RequestContext<Arc<Ctx>>,
    path: Path<NPath>,
    _body: TypedBody<NBody>,
) -> Result<HttpResponseOk<String>, HttpError> {
    gated(rqctx.context().clone(), rqctx.request_id.clone(), path.into_inner().n, "ok").await
}

// ---------------------------------------------------------------------------
// plans
// ---------------------------------------------------------------------------
#[derive(Clone, Debug, PartialEq)]
enum Step {
    Connect(usize),
    Send(usize),        // whole request (or first part, for partial kinds)
    Finish(usize),      // rest of a partial request
    AwaitEnter(usize),
    Release1(usize),
    AwaitStep(usize),
    Release2(usize),
    AwaitEnd(usize),    // handler completed / panicked
    Recv(usize),        // read the response
    RecvNone(usize),    // expect no response (connection dies)
    Disconnect(usize),  // by request index: its connection
    DisconnectConn(usize), // by connection (schedules derived from the specification)
    Reset(usize),       // HTTP/2: reset this request's stream only
    AwaitCancel(usize), // cancel mode: handler dropped
    Close,
}

#[derive(Clone, Debug)]
struct ReqPlan {
    nonce: String,
    conn: usize,
    h2: bool,
    kind: &'static str,     // gate | panic | err | body | badpath | badquery | badbody | notfound
    partial: &'static str,  // full | head | body
    fate: &'static str,     // normal | disc_after_send | disc_after_enter | disc_after_step | disc_after_complete | disc_partial
}

/// Request headers that must not change how a request is handled: hop-by-hop offers and negotiation headers
/// that ordinary clients send (`curl --http2` offers an h2c upgrade on every cleartext request; hyper serves
/// such a request as plain HTTP/1.1).  Chosen per request from its nonce, so that a request looks the same
/// whenever its bytes are rebuilt.
fn extra_headers(nonce: &str) -> Vec<(String, String)> {
    let h: u32 = nonce.bytes().fold(17u32, |a, b| a.wrapping_mul(31).wrapping_add(b as u32));
    match h % 8 {
        0 => vec![("Connection".into(), "Upgrade, HTTP2-Settings".into()), ("Upgrade".into(), "h2c".into()),
                  ("HTTP2-Settings".into(), "AAMAAABkAAQCAAAAAAIAAAAA".into())],
        1 => vec![("Accept".into(), "*/*".into()), ("Accept-Encoding".into(), "gzip, br".into())],
        2 => vec![("Upgrade".into(), "websocket".into())],
        3 => vec![("TE".into(), "trailers".into()), ("Connection".into(), "TE".into())],
        _ => vec![],
    }
}

fn request_bytes(p: &ReqPlan) -> Vec<u8> {
    let mut hdr = vec![("x-verif-nonce".to_string(), p.nonce.clone())];
    hdr.extend(extra_headers(&p.nonce));
    match p.kind {
        "gate" => httpc::build_request("GET", &format!("/gate/{}", p.nonce), &hdr, None),
        "gatedrop" => httpc::build_request("GET", &format!("/gatedrop/{}", p.nonce), &hdr, None),
        "relay" => httpc::build_request("GET", &format!("/relay/{}", p.nonce), &hdr, None),
        "panic" => httpc::build_request("GET", &format!("/panic/{}", p.nonce), &hdr, None),
        "err" => httpc::build_request("GET", &format!("/err/{}", p.nonce), &hdr, None),
        "body" => httpc::build_request("PUT", &format!("/body/{}", p.nonce), &hdr, Some(b"{\"x\": 12345}")),
        "badquery" => httpc::build_request("GET", &format!("/gate/{}?k=notanumber", p.nonce), &hdr, None),
        "badbody" => httpc::build_request("PUT", &format!("/body/{}", p.nonce), &hdr, Some(b"{\"x\": \"str\"}")),
        "badpath" => httpc::build_request("GET", &format!("/gate/{}/%2e%2e", p.nonce), &hdr, None),
        _ => httpc::build_request("GET", &format!("/nosuch/{}", p.nonce), &hdr, None),
    }
}

/// (method, target, body) of a request, for the HTTP/2 client
fn request_parts(p: &ReqPlan) -> (&'static str, String, Option<&'static [u8]>) {
    match p.kind {
        "gate" => ("GET", format!("/gate/{}", p.nonce), None),
        "gatedrop" => ("GET", format!("/gatedrop/{}", p.nonce), None),
        "relay" => ("GET", format!("/relay/{}", p.nonce), None),
        "panic" => ("GET", format!("/panic/{}", p.nonce), None),
        "err" => ("GET", format!("/err/{}", p.nonce), None),
        "body" => ("PUT", format!("/body/{}", p.nonce), Some(b"{\"x\": 12345}")),
        "badquery" => ("GET", format!("/gate/{}?k=notanumber", p.nonce), None),
        "badbody" => ("PUT", format!("/body/{}", p.nonce), Some(b"{\"x\": \"str\"}")),
        "badpath" => ("GET", format!("/gate/{}/%2e%2e", p.nonce), None),
        _ => ("GET", format!("/nosuch/{}", p.nonce), None),
    }
}

fn runs_handler(kind: &str) -> bool {
    matches!(kind, "gate" | "gatedrop" | "relay" | "panic" | "err" | "body")
}

fn make_plan(r: &mut StdRng, ep: u64, mode: &str) -> (Vec<ReqPlan>, Vec<Step>, usize, Vec<bool>) {
    let nreq = r.gen_range(1..=4);
    let mut reqs: Vec<ReqPlan> = vec![];
    let mut nconn = 0usize;
    // which connections are "finished" (their last request disconnects / panics)
    let mut conn_closed: Vec<bool> = vec![];
    let mut conn_h2: Vec<bool> = vec![];
    for i in 0..nreq {
        let kind = *["gate", "gate", "gatedrop", "gatedrop", "relay", "body", "panic", "err", "badquery", "badbody", "badpath", "notfound"]
            .choose(r)
            .unwrap();
        let reusable: Vec<usize> = (0..nconn).filter(|c| !conn_closed[*c]).collect();
        let conn = if !reusable.is_empty() && r.gen_bool(0.35) {
            *reusable.choose(r).unwrap()
        } else {
            nconn += 1;
            conn_closed.push(false);
            conn_h2.push(r.gen_bool(0.35));
            nconn - 1
        };
        let h2 = conn_h2[conn];
        let partial = if h2 {
            "full"
        } else if kind == "body" && r.gen_bool(0.4) {
            "body"
        } else if r.gen_bool(0.15) {
            "head"
        } else {
            "full"
        };
        let fate = if partial != "full" && r.gen_bool(0.4) {
            "disc_partial"
        } else if runs_handler(kind) && kind != "panic" && r.gen_bool(0.45) {
            if h2 && r.gen_bool(0.6) {
                *["reset_after_enter", "reset_after_step"].choose(r).unwrap()
            } else {
                *["disc_after_send", "disc_after_enter", "disc_after_step", "disc_after_complete"].choose(r).unwrap()
            }
        } else {
            "normal"
        };
        // a disconnect ends the connection; a panic ends an HTTP/1 connection
        if fate.starts_with("disc") || (kind == "panic" && !h2) {
            conn_closed[conn] = true;
        }
        reqs.push(ReqPlan { nonce: format!("e{}r{}", ep, i), conn, h2, kind, partial, fate });
    }
    let _ = mode;
    // per-request step lists
    let mut lists: Vec<Vec<Step>> = vec![];
    for (i, q) in reqs.iter().enumerate() {
        let mut s = vec![];
        let first_on_conn = !reqs[..i].iter().any(|o| o.conn == q.conn);
        if first_on_conn {
            s.push(Step::Connect(q.conn));
        }
        s.push(Step::Send(i));
        if q.fate == "disc_partial" {
            s.push(Step::Disconnect(i));
            lists.push(s);
            continue;
        }
        if q.partial != "full" {
            s.push(Step::Finish(i));
        }
        if !runs_handler(q.kind) {
            s.push(Step::Recv(i));
            lists.push(s);
            continue;
        }
        match q.fate {
            "disc_after_send" => {
                s.push(Step::Disconnect(i));
                // the handler may or may not have been started; release in any case
                s.push(Step::Release1(i));
                s.push(Step::Release2(i));
            }
            "disc_after_enter" => {
                s.push(Step::AwaitEnter(i));
                s.push(Step::Disconnect(i));
                s.push(Step::AwaitCancel(i));
                s.push(Step::Release1(i));
                s.push(Step::Release2(i));
            }
            "disc_after_step" => {
                s.push(Step::AwaitEnter(i));
                s.push(Step::Release1(i));
                s.push(Step::AwaitStep(i));
                s.push(Step::Disconnect(i));
                s.push(Step::AwaitCancel(i));
                s.push(Step::Release2(i));
            }
            "reset_after_enter" => {
                s.push(Step::AwaitEnter(i));
                s.push(Step::Reset(i));
                s.push(Step::AwaitCancel(i));
                s.push(Step::Release1(i));
                s.push(Step::Release2(i));
            }
            "reset_after_step" => {
                s.push(Step::AwaitEnter(i));
                s.push(Step::Release1(i));
                s.push(Step::AwaitStep(i));
                s.push(Step::Reset(i));
                s.push(Step::AwaitCancel(i));
                s.push(Step::Release2(i));
            }
            "disc_after_complete" => {
                s.push(Step::AwaitEnter(i));
                s.push(Step::Release1(i));
                s.push(Step::Release2(i));
                s.push(Step::AwaitEnd(i));
                s.push(Step::Disconnect(i));
            }
            _ => {
                s.push(Step::AwaitEnter(i));
                s.push(Step::Release1(i));
                s.push(Step::AwaitStep(i));
                s.push(Step::Release2(i));
                s.push(Step::AwaitEnd(i));
                if q.kind == "panic" {
                    s.push(Step::RecvNone(i));
                } else {
                    s.push(Step::Recv(i));
                }
            }
        }
        lists.push(s);
    }
    // random interleaving; requests sharing a connection are serialised except
    // for an optionally pipelined Send
    let mut idx = vec![0usize; lists.len()];
    let mut plan: Vec<Step> = vec![];
    let close_at = if r.gen_bool(0.7) { Some(r.gen_range(0..=lists.iter().map(|l| l.len()).sum::<usize>())) } else { None };
    let mut emitted = 0usize;
    loop {
        if Some(emitted) == close_at {
            plan.push(Step::Close);
        }
        let ready: Vec<usize> = (0..lists.len())
            .filter(|&i| idx[i] < lists[i].len())
            .filter(|&i| {
                // earlier requests on the same connection must be finished,
                // except that a Send may be pipelined
                let earlier_done = (0..i).all(|j| reqs[j].conn != reqs[i].conn || idx[j] >= lists[j].len());
                let concurrent_ok = reqs[i].h2
                    && !reqs[i].fate.starts_with("disc")
                    && (0..i).all(|j| {
                        reqs[j].conn != reqs[i].conn
                            || lists[j].iter().enumerate().all(|(pos, st)| !matches!(st, Step::Connect(_)) || pos < idx[j])
                    });
                earlier_done
                    || concurrent_ok
                    || (matches!(lists[i][idx[i]], Step::Send(_))
                        && reqs[i].partial == "full"
                        && (0..i).all(|j| {
                            reqs[j].conn != reqs[i].conn
                                || lists[j].iter().enumerate().all(|(pos, st)| {
                                    !matches!(st, Step::Connect(_) | Step::Send(_) | Step::Finish(_)) || pos < idx[j]
                                })
                        }))
            })
            .collect();
        if ready.is_empty() {
            break;
        }
        let i = *ready.choose(r).unwrap();
        plan.push(lists[i][idx[i]].clone());
        idx[i] += 1;
        emitted += 1;
    }
    if close_at.is_some() && !plan.contains(&Step::Close) {
        plan.push(Step::Close);
    }
    (reqs, plan, nconn, conn_h2)
}

// ---------------------------------------------------------------------------
// episode execution
// ---------------------------------------------------------------------------
type H2Sender = hyper::client::conn::http2::SendRequest<http_body_util::Full<bytes::Bytes>>;

/// A client-side byte stream: plain TCP or TLS over it.
trait ByteStream: tokio::io::AsyncRead + tokio::io::AsyncWrite + Unpin + Send {}
impl<T: tokio::io::AsyncRead + tokio::io::AsyncWrite + Unpin + Send> ByteStream for T {}

/// Certificate, key and a client that trusts them: made once per process.
fn tls_material() -> &'static (Vec<u8>, Vec<u8>, tokio_rustls::TlsConnector) {
    static M: std::sync::OnceLock<(Vec<u8>, Vec<u8>, tokio_rustls::TlsConnector)> = std::sync::OnceLock::new();
    M.get_or_init(|| {
        let ck = rcgen::generate_simple_self_signed(vec!["localhost".to_string()]).expect("self-signed certificate");
        let mut roots = rustls::RootCertStore::empty();
        roots.add(ck.cert.der().clone()).expect("root");
        let cfg = rustls::ClientConfig::builder().with_root_certificates(roots).with_no_client_auth();
        (ck.cert.pem().into_bytes(), ck.key_pair.serialize_pem().into_bytes(), tokio_rustls::TlsConnector::from(Arc::new(cfg)))
    })
}

struct ConnState {
    stream: Option<Box<dyn ByteStream>>,
    reader: httpc::Reader,
    port: u16,
    h2: Option<(H2Sender, tokio::task::JoinHandle<()>)>,
}

impl ConnState {
    fn is_open(&self) -> bool {
        self.stream.is_some() || self.h2.is_some()
    }
    fn close(&mut self) {
        self.stream = None;
        if let Some((sender, driver)) = self.h2.take() {
            drop(sender);
            driver.abort();
        }
    }
}

/// One HTTP/2 request as its own task: emits what the client observed.
/// What the client side of an HTTP/2 request ended with: decided once, under one lock together with the
/// event that reports it, so that "received" and "reset" cannot both be reported for one request.
static H2_OUTCOME: Mutex<Option<HashMap<String, &'static str>>> = Mutex::new(None);

fn h2_outcome(nonce: &str, what: &'static str, ev: &str, fields: serde_json::Value) -> bool {
    let mut g = H2_OUTCOME.lock().unwrap();
    let m = g.get_or_insert_with(HashMap::new);
    if m.contains_key(nonce) {
        return false;
    }
    m.insert(nonce.to_string(), what);
    emit(ev, fields);
    true
}

fn spawn_h2_request(mut sender: H2Sender, q: ReqPlan) -> tokio::task::JoinHandle<()> {
    tokio::spawn(async move {
        let (method, target, body) = request_parts(&q);
        let req = http::Request::builder()
            .method(method)
            .uri(format!("http://localhost{}", target))
            .header("x-verif-nonce", q.nonce.clone())
            .body(http_body_util::Full::new(bytes::Bytes::from_static(body.unwrap_or(b""))))
            .unwrap();
        if sender.ready().await.is_err() {
            h2_outcome(&q.nonce, "noresp", "client_noresp", json!({"n": q.nonce, "empty": true, "problem": "h2 not ready"}));
            return;
        }
        match sender.send_request(req).await {
            Ok(resp) => {
                let status = resp.status().as_u16();
                let idhdr: Vec<String> = resp
                    .headers()
                    .get_all("x-request-id")
                    .iter()
                    .map(|v| v.to_str().unwrap_or("?").to_string())
                    .collect();
                use http_body_util::BodyExt;
                match resp.into_body().collect().await {
                    Ok(b) => {
                        let b = b.to_bytes();
                        let idbody = serde_json::from_slice::<serde_json::Value>(&b)
                            .ok()
                            .and_then(|v| v.get("request_id").and_then(|x| x.as_str()).map(|x| x.to_string()))
                            .unwrap_or_default();
                        h2_outcome(&q.nonce, "recv", "client_recv", json!({"n": q.nonce, "status": status, "complete": true,
                            "idhdr": idhdr, "idbody": idbody, "nbody": b.len()}));
                    }
                    Err(e) => {
                        h2_outcome(&q.nonce, "noresp", "client_noresp", json!({"n": q.nonce, "empty": false, "problem": format!("h2 body: {}", e)}));
                    }
                }
            }
            Err(e) => {
                h2_outcome(&q.nonce, "noresp", "client_noresp", json!({"n": q.nonce, "empty": true, "problem": format!("h2: {}", e)}));
            }
        }
    })
}

/// Ask the server to shut down, in one of the three ways the API offers: close().await; dropping the
/// HttpServer (the CloseHandle's Drop signals the serving task); or dropping it while it is also being
/// awaited through a wait_for_shutdown() future.  Whoever observes completion logs close_returned.
fn request_shutdown<C: dropshot::ServerContext>(srv: dropshot::HttpServer<C>, how: u32) -> tokio::task::JoinHandle<Result<(), String>> {
    match how {
        0 => {
            emit("close_call", json!({"via": "close"}));
            tokio::spawn(async move {
                let res = srv.close().await;
                emit("close_returned", json!({"ok": res.is_ok(), "via": "close"}));
                res
            })
        }
        _ => {
            let observer = srv.wait_for_shutdown();
            emit("close_call", json!({"via": "drop"}));
            drop(srv);
            tokio::spawn(async move {
                let res = observer.await;
                emit("close_returned", json!({"ok": res.is_ok(), "via": "drop"}));
                res
            })
        }
    }
}

type Plan = (Vec<ReqPlan>, Vec<Step>, usize, Vec<bool>);

fn intern(s: &str) -> &'static str {
    for k in ["gate", "gatedrop", "relay", "panic", "err", "body", "badquery", "badbody", "badpath", "notfound", "full", "head", "body", "spec"] {
        if k == s {
            return k;
        }
    }
    panic!("unknown word in plan file: {}", s)
}

/// A schedule derived from a behaviour of Lifecycle.tla (bin/checks_lifecycle.py, MC_LifecyclePlan.tla):
/// {"reqs": [{"conn": 0, "h2": false, "kind": "gate", "partial": "full"}], "conn_h2": [false],
///  "plan": [["Connect", 0], ["Send", 0], ...]}
fn plan_from_json(v: &serde_json::Value, ep: u64) -> Plan {
    let conn_h2: Vec<bool> = v["conn_h2"].as_array().unwrap().iter().map(|b| b.as_bool().unwrap()).collect();
    let reqs: Vec<ReqPlan> = v["reqs"]
        .as_array()
        .unwrap()
        .iter()
        .enumerate()
        .map(|(i, q)| {
            let conn = q["conn"].as_u64().unwrap() as usize;
            ReqPlan {
                nonce: format!("s{}r{}", ep, i),
                conn,
                h2: conn_h2[conn],
                kind: intern(q["kind"].as_str().unwrap()),
                partial: intern(q["partial"].as_str().unwrap()),
                fate: "spec",
            }
        })
        .collect();
    let plan: Vec<Step> = v["plan"]
        .as_array()
        .unwrap()
        .iter()
        .map(|st| {
            let i = st[1].as_u64().unwrap_or(0) as usize;
            match st[0].as_str().unwrap() {
                "Connect" => Step::Connect(i),
                "Send" => Step::Send(i),
                "Finish" => Step::Finish(i),
                "AwaitEnter" => Step::AwaitEnter(i),
                "Release1" => Step::Release1(i),
                "AwaitStep" => Step::AwaitStep(i),
                "Release2" => Step::Release2(i),
                "AwaitEnd" => Step::AwaitEnd(i),
                "Recv" => Step::Recv(i),
                "RecvNone" => Step::RecvNone(i),
                "Disconnect" => Step::Disconnect(i),
                "DisconnectConn" => Step::DisconnectConn(i),
                "Reset" => Step::Reset(i),
                "AwaitCancel" => Step::AwaitCancel(i),
                "Close" => Step::Close,
                other => panic!("unknown step {}", other),
            }
        })
        .collect();
    let nconn = conn_h2.len();
    (reqs, plan, nconn, conn_h2)
}

/// Episodes in a row that ran into one of the driver's own timeouts.  A server that has wedged makes every
/// episode cost tens of seconds; after eight such episodes in a row the driver stops (the trace then ends in
/// episodes the specification does not accept, which is the verdict).
static TIMED_OUT_IN_A_ROW: std::sync::atomic::AtomicU32 = std::sync::atomic::AtomicU32::new(0);

async fn run_episode(r: &mut StdRng, ep: u64, mode: &str, given: Option<Plan>) {
    let mem_start = dropshot::verif::peek_memory(0).len();
    run_episode_inner(r, ep, mode, given).await;
    let timed_out = dropshot::verif::peek_memory(mem_start).iter().any(|l| l.contains("_timeout\""));
    if timed_out {
        TIMED_OUT_IN_A_ROW.fetch_add(1, std::sync::atomic::Ordering::SeqCst);
    } else {
        TIMED_OUT_IN_A_ROW.store(0, std::sync::atomic::Ordering::SeqCst);
    }
    // Quiescence: every request the server started has either produced its response or had its future
    // dropped.  (With HTTP/2 each stream's future is its own task and may still be polled once after
    // close() has returned; its last event belongs to this episode, not the next one.)
    let deadline = tokio::time::Instant::now() + Duration::from_secs(10);
    loop {
        let mut open: std::collections::HashSet<String> = Default::default();
        for l in dropshot::verif::peek_memory(mem_start) {
            let v: serde_json::Value = serde_json::from_str(&l).unwrap();
            let id = v["id"].as_str().unwrap_or("").to_string();
            match v["ev"].as_str().unwrap_or("") {
                "req_start" => { open.insert(id); }
                "resp_ready" | "req_cancelled" => { open.remove(&id); }
                _ => {}
            }
        }
        if open.is_empty() {
            break;
        }
        if tokio::time::Instant::now() > deadline {
            emit("quiesce_timeout", json!({"open": open.len()}));
            break;
        }
        tokio::time::sleep(Duration::from_millis(2)).await;
    }
}

async fn run_episode_inner(r: &mut StdRng, ep: u64, mode: &str, given: Option<Plan>) {
    let from_spec = given.is_some();
    let (reqs, plan, nconn, conn_h2) = match given {
        Some(p) => p,
        None => make_plan(r, ep, mode),
    };
    let ctx = Arc::new(Ctx { reqs: Mutex::new(HashMap::new()), changed: tokio::sync::Notify::new() });
    let mut api = ApiDescription::new();
    api.register(ep_gate_handler).unwrap();
    api.register(ep_gatedrop_handler).unwrap();
    api.register(ep_relay_handler).unwrap();
    api.register(ep_panic_handler).unwrap();
    api.register(ep_err_handler).unwrap();
    api.register(ep_body_handler).unwrap();
    let log = slog::Logger::root(slog::Discard, slog::o!());
    let config = ConfigDropshot {
        bind_address: "127.0.0.1:0".parse().unwrap(),
        default_handler_task_mode: if mode == "cancel" {
            HandlerTaskMode::CancelOnDisconnect
        } else {
            HandlerTaskMode::Detached
        },
        ..Default::default()
    };
    // a quarter of the episodes run over TLS (the HTTPS accept loop is code of its own in server.rs)
    let tls = r.gen_bool(0.25);
    emit("reset", json!({"episode": ep, "mode": mode, "from_spec": from_spec, "tls": tls,
        "plan": plan.iter().map(|s| format!("{:?}", s)).collect::<Vec<_>>(),
        "reqs": reqs.iter().map(|q| json!({"n": q.nonce, "conn": q.conn, "h2": q.h2, "kind": q.kind, "partial": q.partial, "fate": q.fate})).collect::<Vec<_>>()}));
    let mut builder = ServerBuilder::new(api, ctx.clone(), log).config(config);
    if tls {
        let (cert, key, _) = tls_material();
        builder = builder.tls(Some(dropshot::ConfigTls::AsBytes { certs: cert.clone(), key: key.clone() }));
    }
    let server = builder.start().expect("server");
    let addr = server.local_addr();
    // two waiters for shutdown: tasks of their own, so that the moment each is released is what gets logged
    let mut waiters = vec![];
    for w in [1, 2] {
        let fut = server.wait_for_shutdown();
        waiters.push(tokio::spawn(async move {
            let res = fut.await;
            emit("waiter_released", json!({"w": w, "ok": res.is_ok()}));
        }));
    }
    let mut server = Some(server);
    let mut close_task: Option<tokio::task::JoinHandle<Result<(), String>>> = None;
    let mut conns: Vec<ConnState> =
        (0..nconn).map(|_| ConnState { stream: None, reader: httpc::Reader::new(), port: 0, h2: None }).collect();
    let mut h2_tasks: HashMap<usize, tokio::task::JoinHandle<()>> = HashMap::new();
    let mut abandoned = false;
    let mut cuts: HashMap<String, usize> = HashMap::new();
    let mut close_called = false;
    // how shutdown is requested in this episode: close().await (3 in 4) or by dropping the server
    let close_how: u32 = if r.gen_bool(0.75) { 0 } else { 1 };

    for step in &plan {
        if abandoned {
            break;
        }
        match step {
            Step::Connect(c) => {
                // bind first so that the event naming the port precedes the connect
                let sock = tokio::net::TcpSocket::new_v4().unwrap();
                sock.bind("127.0.0.1:0".parse().unwrap()).unwrap();
                let port = sock.local_addr().unwrap().port();
                emit("client_connect", json!({"c": format!("c{}", c), "port": port}));
                match sock.connect(addr).await {
                    Ok(s) => {
                        let _ = s.set_nodelay(true);
                        conns[*c].port = port;
                        let s: Box<dyn ByteStream> = if tls {
                            let name = rustls::pki_types::ServerName::try_from("localhost").unwrap();
                            // A connection the kernel accepted after the accept loop has exited is never
                            // handshaken; that is the TLS form of "connect refused once shutdown has begun".
                            let t = if close_called { Duration::from_millis(1500) } else { AWAIT };
                            match tokio::time::timeout(t, tls_material().2.connect(name, s)).await {
                                Ok(Ok(t)) => Box::new(t),
                                Ok(Err(e)) => {
                                    emit("connect_failed", json!({"c": format!("c{}", c), "kind": format!("tls: {}", e)}));
                                    abandoned = true;
                                    continue;
                                }
                                Err(_) => {
                                    if close_called {
                                        emit("connect_failed", json!({"c": format!("c{}", c), "kind": "tls handshake not served"}));
                                    } else {
                                        emit("tls_handshake_timeout", json!({"c": format!("c{}", c)}));
                                    }
                                    abandoned = true;
                                    continue;
                                }
                            }
                        } else {
                            Box::new(s)
                        };
                        if conn_h2[*c] {
                            let io = hyper_util::rt::TokioIo::new(s);
                            match hyper::client::conn::http2::handshake(hyper_util::rt::TokioExecutor::new(), io).await {
                                Ok((sender, conn)) => {
                                    let driver = tokio::spawn(async move {
                                        let _ = conn.await;
                                    });
                                    conns[*c].h2 = Some((sender, driver));
                                }
                                Err(_) => {
                                    emit("connect_failed", json!({"c": format!("c{}", c), "kind": "h2 handshake"}));
                                    abandoned = true;
                                }
                            }
                        } else {
                            conns[*c].stream = Some(s);
                        }
                    }
                    Err(e) => {
                        // only legitimate once shutdown has begun
                        emit("connect_failed", json!({"c": format!("c{}", c), "kind": format!("{:?}", e.kind())}));
                        abandoned = true;
                    }
                }
            }
            Step::Send(i) => {
                let q = &reqs[*i];
                let bytes = request_bytes(q);
                let cut = match q.partial {
                    "head" => bytes.len().min(r.gen_range(1..20)),
                    "body" => bytes.len() - r.gen_range(1..6),
                    _ => bytes.len(),
                };
                cuts.insert(q.nonce.clone(), cut);
                let c = &mut conns[q.conn];
                if let Some((sender, _)) = c.h2.as_ref() {
                    emit("client_send", json!({"k": format!("r{}", i), "c": format!("c{}", q.conn), "n": q.nonce, "port": c.port, "kind": "full", "ep": q.kind, "h2": true}));
                    h2_tasks.insert(*i, spawn_h2_request(sender.clone(), q.clone()));
                } else if let Some(s) = c.stream.as_mut() {
                    emit("client_send", json!({"k": format!("r{}", i), "c": format!("c{}", q.conn), "n": q.nonce, "port": c.port, "kind": q.partial, "ep": q.kind}));
                    if s.write_all(&bytes[..cut]).await.is_err() {
                        emit("client_write_failed", json!({"n": q.nonce}));
                    }
                } else {
                    abandoned = true;
                }
            }
            Step::Finish(i) => {
                let q = &reqs[*i];
                let bytes = request_bytes(q);
                let c = &mut conns[q.conn];
                if let Some(s) = c.stream.as_mut() {
                    emit("client_finish", json!({"k": format!("r{}", i), "n": q.nonce}));
                    let _ = s.write_all(&bytes[cuts[&q.nonce]..]).await;
                }
            }
            Step::AwaitEnter(i) => {
                let t = if close_called { Duration::from_millis(1500) } else { AWAIT };
                if !ctx.await_phase_for(&reqs[*i].nonce, &["entered", "stepped", "completed", "panicked", "dropped"], t).await {
                    // Not a property violation by itself when shutdown raced
                    // with the request; the trace spec decides from what was
                    // recorded.  Stop driving this episode.
                    emit("await_enter_timeout", json!({"n": reqs[*i].nonce}));
                    abandoned = true;
                }
            }
            Step::Release1(i) => {
                emit("release", json!({"n": reqs[*i].nonce, "gate": 1}));
                ctx.gates(&reqs[*i].nonce).0.add_permits(1);
            }
            Step::AwaitStep(i) => {
                if !ctx.await_phase(&reqs[*i].nonce, &["stepped", "completed", "panicked", "dropped"]).await {
                    emit("await_step_timeout", json!({"n": reqs[*i].nonce}));
                    abandoned = true;
                }
            }
            Step::Release2(i) => {
                emit("release", json!({"n": reqs[*i].nonce, "gate": 2}));
                ctx.gates(&reqs[*i].nonce).1.add_permits(1);
            }
            Step::AwaitEnd(i) => {
                if !ctx.await_phase(&reqs[*i].nonce, &["completed", "panicked", "dropped"]).await {
                    emit("await_end_timeout", json!({"n": reqs[*i].nonce}));
                    abandoned = true;
                }
            }
            Step::AwaitCancel(i) => {
                if mode == "cancel" {
                    if !ctx.await_phase(&reqs[*i].nonce, &["dropped"]).await {
                        // C16: the handler of a departed client must be cancelled
                        emit("cancel_timeout", json!({"n": reqs[*i].nonce}));
                    }
                }
            }
            Step::Recv(i) | Step::RecvNone(i) => {
                let q = &reqs[*i];
                let c = &mut conns[q.conn];
                if let Some(task) = h2_tasks.remove(i) {
                    let t = if close_called && ctx.phase(&q.nonce) == "" { Duration::from_millis(3000) } else { AWAIT };
                    let mut task = task;
                    if tokio::time::timeout(t, &mut task).await.is_err() {
                        emit("client_timeout", json!({"n": q.nonce}));
                        task.abort();
                    }
                } else if let Some(s) = c.stream.as_mut() {
                    // a request that the server never picked up because shutdown
                    // had begun is not worth a long wait
                    let t = if close_called && ctx.phase(&q.nonce) == "" && runs_handler(q.kind) {
                        Duration::from_millis(1500)
                    } else if close_called && !runs_handler(q.kind) {
                        Duration::from_millis(3000)
                    } else {
                        AWAIT
                    };
                    let resp = c.reader.read_response(s, false, t).await;
                    if resp.wellformed {
                        let idbody = serde_json::from_slice::<serde_json::Value>(&resp.body)
                            .ok()
                            .and_then(|v| v.get("request_id").and_then(|x| x.as_str()).map(|x| x.to_string()))
                            .unwrap_or_default();
                        emit("client_recv", json!({"n": q.nonce, "status": resp.status,
                            "complete": resp.complete,
                            "idhdr": resp.headers_all("x-request-id"),
                            "idbody": idbody,
                            "nbody": resp.body.len()}));
                    } else if resp.problem == "timeout" {
                        emit("client_timeout", json!({"n": q.nonce}));
                    } else {
                        emit("client_noresp", json!({"n": q.nonce, "empty": resp.empty, "problem": resp.problem}));
                    }
                }
            }
            Step::Disconnect(i) => {
                let q = &reqs[*i];
                let c = &mut conns[q.conn];
                if c.is_open() {
                    emit("client_disconnect", json!({"c": format!("c{}", q.conn), "port": c.port}));
                    // HTTP/2: the connection only closes once every handle to it is gone
                    let on_conn: Vec<usize> = h2_tasks.keys().cloned().filter(|j| reqs[*j].conn == q.conn).collect();
                    for j in on_conn {
                        if let Some(t) = h2_tasks.remove(&j) {
                            t.abort();
                        }
                    }
                    c.close(); // closes the socket
                }
            }
            Step::DisconnectConn(ci) => {
                let c = &mut conns[*ci];
                if c.is_open() {
                    emit("client_disconnect", json!({"c": format!("c{}", ci), "port": c.port}));
                    let on_conn: Vec<usize> = h2_tasks.keys().cloned().filter(|j| reqs[*j].conn == *ci).collect();
                    for j in on_conn {
                        if let Some(t) = h2_tasks.remove(&j) {
                            t.abort();
                        }
                    }
                    c.close();
                }
            }
            Step::Reset(i) => {
                if let Some(task) = h2_tasks.remove(i) {
                    // no reset once the response (or its absence) has been reported
                    if h2_outcome(&reqs[*i].nonce, "reset", "client_reset", json!({"k": format!("r{}", i), "n": reqs[*i].nonce})) {
                        task.abort(); // dropping the response future resets the stream
                    }
                }
            }
            Step::Close => {
                if let Some(srv) = server.take() {
                    close_called = true;
                    close_task = Some(request_shutdown(srv, close_how));
                }
            }
        }
    }
    // wind down: release everything, drop client connections, close the server
    for q in &reqs {
        let (g1, g2) = ctx.gates(&q.nonce);
        g1.add_permits(1);
        g2.add_permits(1);
    }
    // Handlers of clients that are still connected must finish before we drop
    // the client side; give every started handler time to end.
    for q in &reqs {
        let ph = ctx.phase(&q.nonce);
        if ph == "entered" || ph == "stepped" {
            ctx.await_phase(&q.nonce, &["completed", "panicked", "dropped"]).await;
        }
    }
    // give HTTP/2 request tasks a moment to report what they received
    for (_, mut task) in h2_tasks.drain() {
        if tokio::time::timeout(Duration::from_millis(1500), &mut task).await.is_err() {
            task.abort();
        }
    }
    for (ci, c) in conns.iter_mut().enumerate() {
        if c.is_open() {
            emit("client_disconnect", json!({"c": format!("c{}", ci), "port": c.port}));
            c.close();
        }
    }
    if let Some(srv) = server.take() {
        close_task = Some(request_shutdown(srv, close_how));
    }
    match tokio::time::timeout(Duration::from_secs(40), close_task.unwrap()).await {
        Ok(_) => {}
        Err(_) => emit("close_timeout", json!({})),
    }
    for (w, task) in waiters.into_iter().enumerate() {
        if tokio::time::timeout(AWAIT, task).await.is_err() {
            emit("waiter_timeout", json!({"w": w + 1}));
        }
    }
    // C17: the port no longer accepts connections
    match tokio::time::timeout(Duration::from_secs(2), TcpStream::connect(addr)).await {
        Ok(Ok(_s)) => emit("connect_after_stop", json!({"refused": false})),
        _ => emit("connect_after_stop", json!({"refused": true})),
    }
}

fn main() {
    let args: Vec<String> = std::env::args().collect();
    let mode = args[1].clone();
    let episodes: u64 = args[2].parse().unwrap();
    let out = args[3].clone();
    quiet_panics();
    dropshot::verif::install_memory_sink();
    verif_harness::campaign_budget(&out);
    let seed = seed_from_env();
    let rt = tokio::runtime::Builder::new_multi_thread().worker_threads(4).enable_all().build().unwrap();
    rt.block_on(async {
        // schedules derived from behaviours of the specification first
        if let Ok(path) = std::env::var("VERIF_PLANS") {
            let text = std::fs::read_to_string(&path).expect("plan file");
            for (k, line) in text.lines().filter(|l| !l.trim().is_empty()).enumerate() {
                let v: serde_json::Value = serde_json::from_str(line).expect("plan line");
                let ep = 1_000_000 + k as u64;
                let mut r = rng(seed, ep * 2 + if mode == "cancel" { 0 } else { 1 });
                run_episode(&mut r, ep, &mode, Some(plan_from_json(&v, ep))).await;
            }
        }
        for ep in 0..episodes {
            if TIMED_OUT_IN_A_ROW.load(std::sync::atomic::Ordering::SeqCst) >= 8 {
                emit("campaign_stopped", json!({"why": "eight episodes in a row ran into a timeout"}));
                break;
            }
            let mut r = rng(seed, ep * 2 + if mode == "cancel" { 0 } else { 1 });
            run_episode(&mut r, ep, &mode, None).await;
        }
    });
    let lines = dropshot::verif::take_memory();
    std::fs::write(&out, lines.join("\n") + "\n").unwrap();
    println!("{}", json!({"events": lines.len(), "episodes": episodes}));
}
