//! (R) Replay of BodyLimit.tla behaviours: each vector (cap, frame sequence,
//! expected delivered chunks, verdict, frames drained) is fed to a real
//! `StreamingBody` built over a body that yields exactly those frames.

use bytes::Bytes;
use dropshot::Body;
use dropshot::StreamingBody;
use futures::StreamExt;
use http_body_util::StreamBody;
use hyper::body::Frame;
use rand::Rng;
use serde_json::json;
use serde_json::Value;
use std::io::BufRead;
use std::io::Write;
use std::sync::atomic::AtomicUsize;
use std::sync::atomic::Ordering;
use std::sync::Arc;
use verif_harness::*;

type BoxError = Box<dyn std::error::Error + Send + Sync>;

fn main() {
    quiet_panics();
    let seed = seed_from_env();
    let rt = tokio::runtime::Builder::new_current_thread().enable_all().build().unwrap();
    let stdin = std::io::stdin();
    let stdout = std::io::stdout();
    let mut out = stdout.lock();
    let mut n = 0u64;
    for line in stdin.lock().lines() {
        let line = line.unwrap();
        if line.trim().is_empty() {
            continue;
        }
        n += 1;
        let vec: Value = serde_json::from_str(&line).unwrap();
        let mut r = rng(seed, n);
        let unit: usize = [1usize, 1, 3, 1000, 65536][r.gen_range(0..5)];
        let cap = vec["cap"].as_u64().unwrap() as usize * unit;
        let frames = jarr(&vec["frames"]);
        let want_delivered: Vec<usize> =
            jarr(&vec["delivered"]).iter().map(|x| x.as_u64().unwrap() as usize * unit).collect();
        let want_verdict = jstr(&vec["verdict"]);
        let polled = Arc::new(AtomicUsize::new(0));
        let mut items: Vec<Result<Frame<Bytes>, BoxError>> = vec![];
        let mut fill: u8 = 0;
        let mut sent: Vec<u8> = vec![];
        for f in &frames {
            if jstr(&f["k"]) == "data" {
                let len = f["n"].as_u64().unwrap() as usize * unit;
                let mut v = Vec::with_capacity(len);
                for _ in 0..len {
                    v.push(fill);
                    fill = fill.wrapping_add(1);
                }
                sent.extend_from_slice(&v);
                items.push(Ok(Frame::data(Bytes::from(v))));
            } else {
                let mut h = http::HeaderMap::new();
                h.insert("x-trailer", http::HeaderValue::from_static("1"));
                items.push(Ok(Frame::trailers(h)));
            }
        }
        let nframes = items.len();
        let p2 = polled.clone();
        let stream = futures::stream::iter(items).map(move |x| {
            p2.fetch_add(1, Ordering::SeqCst);
            x
        });
        let body = Body::wrap(StreamBody::new(stream));
        let mut mism: Vec<Value> = vec![];
        let (got_delivered, got_err, got_bytes) = rt.block_on(async {
            let sb = StreamingBody::__verif_new(body, cap);
            let s = sb.into_stream();
            tokio::pin!(s);
            let mut d = vec![];
            let mut e: Option<u16> = None;
            let mut bytes: Vec<u8> = vec![];
            let mut after_err = 0;
            while let Some(item) = s.next().await {
                match item {
                    Ok(b) => {
                        if e.is_some() {
                            after_err += 1;
                        }
                        d.push(b.len());
                        bytes.extend_from_slice(&b);
                    }
                    Err(err) => e = Some(err.status_code.as_u16()),
                }
            }
            if after_err > 0 {
                d.push(usize::MAX); // data after the error: flagged below
            }
            (d, e, bytes)
        });
        if got_delivered != want_delivered {
            mism.push(json!({"prop": "C11", "what": "delivered-chunks", "cap": cap,
                "want": want_delivered, "got": got_delivered}));
        }
        let total: usize = got_delivered.iter().filter(|x| **x != usize::MAX).sum();
        if total > cap {
            mism.push(json!({"prop": "C11", "what": "over-cap-delivered", "cap": cap, "total": total}));
        }
        if got_bytes[..] != sent[..got_bytes.len().min(sent.len())] || got_bytes.len() > sent.len() {
            mism.push(json!({"prop": "C11", "what": "bytes-altered", "cap": cap}));
        }
        match (want_verdict.as_str(), got_err) {
            ("done", None) => {
                if got_bytes != sent {
                    mism.push(json!({"prop": "C11", "what": "accepted-body-not-intact", "cap": cap}));
                }
            }
            ("rejected", Some(code)) if (400..500).contains(&code) => {}
            (w, g) => mism.push(json!({"prop": "C11", "what": "verdict", "cap": cap, "want": w,
                "got_error_status": g})),
        }
        let got_polled = polled.load(Ordering::SeqCst);
        if got_polled != nframes {
            mism.push(json!({"prop": "C11", "what": "body-not-drained", "frames": nframes,
                "polled": got_polled, "shape": "drain"}));
        }
        writeln!(out, "{}", json!({"ok": mism.is_empty(), "mismatches": mism,
            "inst": {"unit": unit, "cap": cap}})).unwrap();
    }
}
