//! (T) Driver for RequestFlow.tla (C09, C10): every case of the
//! specification's case tables is instantiated with concrete values in
//! several encodings and framings and sent -- concurrently, on separate
//! HTTP/1 connections, pipelined, and multiplexed over HTTP/2 -- to typed
//! echo endpoints.  The handler logs exactly what it received (typed value as
//! canonical JSON, nonce header, peer port, request id); the driver logs what
//! it encoded.  TraceRequestFlow.tla decides.
//!
//! usage: drive_flow <quick|thorough> <cases.json> <out.ndjson>

use dropshot::endpoint;
use dropshot::ApiDescription;
use dropshot::ConfigDropshot;
use dropshot::HttpError;
use dropshot::HttpResponseOk;
use dropshot::MultipartBody;
use dropshot::Path;
use dropshot::Query;
use dropshot::RequestContext;
use dropshot::ServerBuilder;
use dropshot::TypedBody;
use dropshot::UntypedBody;
use rand::rngs::StdRng;
use rand::Rng;
use schemars::JsonSchema;
use serde::Deserialize;
use serde::Serialize;
use serde_json::json;
use serde_json::Value;
use std::time::Duration;
use tokio::io::AsyncWriteExt;
use verif_harness::httpc;
use verif_harness::*;

fn emit(ev: &str, v: Value) {
    dropshot::verif::emit(ev, v);
}
fn hex(s: &[u8]) -> String {
    dropshot::verif::hex(s)
}

// ---------------------------------------------------------------------------
// types shared by handlers (what was received) and driver (what was sent)
// ---------------------------------------------------------------------------
#[derive(Deserialize, Serialize, JsonSchema, Clone, Copy, Debug, PartialEq)]
#[serde(rename_all = "lowercase")]
enum Color {
    Red,
    Green,
}

#[derive(Deserialize, Serialize, JsonSchema, Clone, Debug, PartialEq)]
#[serde(tag = "kind", rename_all = "snake_case")]
enum Shape {
    Circle { r: u32 },
    Rect { w: u32, h: u32 },
    Empty,
}

#[derive(Deserialize, Serialize, JsonSchema, Clone, Debug, PartialEq, Default)]
struct QOpt {
    qs: Option<String>,
    qu8: Option<u8>,
    qu32: Option<u32>,
    qi64: Option<i64>,
    qb: Option<bool>,
    qe: Option<Color>,
}

#[derive(Deserialize, Serialize, JsonSchema, Clone, Debug, PartialEq)]
struct QReq {
    r: u32,
    o: Option<String>,
}

#[derive(Deserialize, Serialize, JsonSchema, Clone, Debug, PartialEq)]
struct J {
    s: String,
    i: i64,
    u: u64,
    b: bool,
    o: Option<String>,
    v: Vec<u32>,
    e: Color,
    k: Shape,
}

#[derive(Deserialize, Serialize, JsonSchema, Clone, Debug, PartialEq)]
struct F {
    s: String,
    u: u32,
    b: bool,
    o: Option<String>,
}

macro_rules! path_type {
    ($name:ident, $t:ty) => {
        #[derive(Deserialize, Serialize, JsonSchema, Clone, Debug)]
        struct $name {
            n: String,
            v: $t,
        }
    };
}
path_type!(PString, String);
path_type!(PU8, u8);
path_type!(PU32, u32);
path_type!(PI64, i64);
path_type!(PBool, bool);
path_type!(PEnum, Color);
#[derive(Deserialize, Serialize, JsonSchema, Clone, Debug)]
struct PWild {
    n: String,
    rest: Vec<String>,
}
#[derive(Deserialize, Serialize, JsonSchema, Clone, Debug)]
struct PN {
    n: String,
}

fn echo<C: dropshot::ServerContext>(rqctx: &RequestContext<C>, n: &str, val: Value) {
    let hn = rqctx.request.headers().get("x-verif-nonce").and_then(|v| v.to_str().ok()).unwrap_or("");
    emit(
        "handler_echo",
        json!({"id": rqctx.request_id, "n": n, "hn": hn,
               "val_hex": hex(serde_json::to_string(&val).unwrap().as_bytes()),
               "m": rqctx.request.method().as_str(),
               "uri_hex": hex(rqctx.request.uri().to_string().as_bytes()),
               "port": rqctx.request.remote_addr().port()}),
    );
}

macro_rules! path_ep {
    ($fname:ident, $path:literal, $pt:ty) => {
        #[endpoint { method = GET, path = $path }]
        async fn $fname(
            rqctx: RequestContext<()>,
            path: Path<$pt>,
            query: Query<QOpt>,
        ) -> Result<HttpResponseOk<String>, HttpError> {
            let p = path.into_inner();
            let q = query.into_inner();
            echo(&rqctx, &p.n.clone(), json!({"path": p.v, "query": q}));
            Ok(HttpResponseOk(p.n))
        }
    };
}
path_ep!(ep_flow_p_string, "/p/string/{n}/{v}", PString);
path_ep!(ep_flow_p_u8, "/p/u8/{n}/{v}", PU8);
path_ep!(ep_flow_p_u32, "/p/u32/{n}/{v}", PU32);
path_ep!(ep_flow_p_i64, "/p/i64/{n}/{v}", PI64);
path_ep!(ep_flow_p_bool, "/p/bool/{n}/{v}", PBool);
path_ep!(ep_flow_p_enum, "/p/enum/{n}/{v}", PEnum);

#[endpoint { method = GET, path = "/w/{n}/{rest:.*}", unpublished = true }]
async fn ep_flow_wild(rqctx: RequestContext<()>, path: Path<PWild>) -> Result<HttpResponseOk<String>, HttpError> {
    let p = path.into_inner();
    echo(&rqctx, &p.n.clone(), json!({"path": p.rest}));
    Ok(HttpResponseOk(p.n))
}

#[endpoint { method = GET, path = "/q/req/{n}" }]
async fn ep_flow_qreq(rqctx: RequestContext<()>, path: Path<PN>, query: Query<QReq>) -> Result<HttpResponseOk<String>, HttpError> {
    let p = path.into_inner();
    echo(&rqctx, &p.n.clone(), json!({"query": query.into_inner()}));
    Ok(HttpResponseOk(p.n))
}

#[endpoint { method = PUT, path = "/b/json/{n}" }]
async fn ep_flow_json(rqctx: RequestContext<()>, path: Path<PN>, query: Query<QOpt>, body: TypedBody<J>) -> Result<HttpResponseOk<String>, HttpError> {
    let p = path.into_inner();
    echo(&rqctx, &p.n.clone(), json!({"query": query.into_inner(), "body": body.into_inner()}));
    Ok(HttpResponseOk(p.n))
}

#[endpoint { method = PUT, path = "/b/form/{n}", content_type = "application/x-www-form-urlencoded" }]
async fn ep_flow_form(rqctx: RequestContext<()>, path: Path<PN>, body: TypedBody<F>) -> Result<HttpResponseOk<String>, HttpError> {
    let p = path.into_inner();
    echo(&rqctx, &p.n.clone(), json!({"body": body.into_inner()}));
    Ok(HttpResponseOk(p.n))
}

#[endpoint { method = PUT, path = "/b/raw/{n}", request_body_max_bytes = 2000000 }]
async fn ep_flow_raw(rqctx: RequestContext<()>, path: Path<PN>, body: UntypedBody) -> Result<HttpResponseOk<String>, HttpError> {
    let p = path.into_inner();
    echo(&rqctx, &p.n.clone(), json!({"body": hex(body.as_bytes())}));
    Ok(HttpResponseOk(p.n))
}

// the same raw body through the RawRequest extractor (hyper's own request, handed over untouched)
#[endpoint { method = PUT, path = "/b/rawreq/{n}" }]
async fn ep_flow_rawreq(rqctx: RequestContext<()>, path: Path<PN>, raw: dropshot::RawRequest) -> Result<HttpResponseOk<String>, HttpError> {
    use http_body_util::BodyExt;
    let p = path.into_inner();
    let bytes = raw
        .into_inner()
        .into_body()
        .collect()
        .await
        .map_err(|e| HttpError::for_bad_request(None, format!("raw body: {}", e)))?
        .to_bytes();
    echo(&rqctx, &p.n.clone(), json!({"body": hex(&bytes)}));
    Ok(HttpResponseOk(p.n))
}

#[endpoint { method = POST, path = "/b/multipart/{n}" }]
async fn ep_flow_multipart(rqctx: RequestContext<()>, path: Path<PN>, mut body: MultipartBody) -> Result<HttpResponseOk<String>, HttpError> {
    let p = path.into_inner();
    let mut fields: Vec<Value> = vec![];
    loop {
        match body.content.next_field().await {
            Ok(Some(field)) => {
                let name = field.name().unwrap_or("").to_string();
                match field.bytes().await {
                    Ok(b) => fields.push(json!([name, hex(&b)])),
                    Err(e) => return Err(HttpError::for_bad_request(None, format!("multipart: {}", e))),
                }
            }
            Ok(None) => break,
            Err(e) => return Err(HttpError::for_bad_request(None, format!("multipart: {}", e))),
        }
    }
    echo(&rqctx, &p.n.clone(), json!({"body": fields}));
    Ok(HttpResponseOk(p.n))
}

// ---------------------------------------------------------------------------
// instantiation of cases
// ---------------------------------------------------------------------------
/// a request ready to be sent
#[derive(Clone)]
struct Built {
    method: &'static str,
    target: String,
    headers: Vec<(String, String)>,
    body: Option<Vec<u8>>,
    chunked: bool,
    /// what the handler must report (None if the request must be refused)
    want: Option<Value>,
}

fn text_string(r: &mut StdRng, c: &str) -> String {
    match c {
        "plain" => (0..r.gen_range(1..9)).map(|_| (b'a' + r.gen_range(0..26)) as char).collect(),
        "reserved" => ["a b&c=d", "q?x#y", "100%", "a;b,c", "\"quoted\"", "<tag>", "semi;colon", "at@sign:colon", "[br]{ace}", "%41", "a%2Fb", "%25", "%zz%",
            "user+tag@example.com", "c++", "2024-01-01T00:00:00+00:00", "a+b c", "(x)!*'$"][r.gen_range(0..18)].to_string(),
        "unicode" => ["é", "日本語", "😀 smile", "ñandú", "\u{200b}zero-width", "Ω≈ç√"][r.gen_range(0..6)].to_string(),
        "long" => "x".repeat(r.gen_range(2000..4000)),
        "slashes" => ["a/b", "/lead", "trail/", "a//b", "../up"][r.gen_range(0..5)].to_string(),
        "plus_space" => ["a+b c", "+", " ", "1 + 1 = 2"][r.gen_range(0..4)].to_string(),
        "message_like" => message_like(r),
        "long_unicode" => long_unicode(r),
        // a marker that the encoders below turn into bytes that are not UTF-8
        "invalid_utf8" => "ab\u{e000}INVALID\u{e000}cd".to_string(),
        _ => String::new(),
    }
}

/// 56..72 ASCII digits, then multi-byte characters, then more digits: wherever a byte-offset cut falls around
/// 64 (or 60, or 70) it is likely to fall inside a character.
fn long_unicode(r: &mut StdRng) -> String {
    let head: String = (0..r.gen_range(56..72)).map(|_| (b'0' + r.gen_range(0..10)) as char).collect();
    let mid = ["\u{e9}", "\u{65e5}\u{672c}", "\u{1f600}", "\u{e9}\u{e9}\u{e9}\u{e9}"][r.gen_range(0..4)];
    let tail: String = (0..r.gen_range(0..12)).map(|_| (b'0' + r.gen_range(0..10)) as char).collect();
    format!("{}{}{}", head, mid, tail)
}

/// Text that reads like part of a deserialiser's error message.
fn message_like(r: &mut StdRng) -> String {
    [
        "missing field", "missing field `n`", "a missing field here", "unknown variant", "unknown variant `red`",
        "unknown field `x`, expected `n`", "duplicate field `n`", "invalid type: string \"1\", expected u8",
        "invalid value: integer `-1`, expected u32", "invalid length 0", "expected value at line 1 column 1",
        "EOF while parsing a value", "data did not match any variant", "unable to parse '1' as u8",
    ][r.gen_range(0..14)]
    .to_string()
}

/// (text as the client writes it, parsed value if valid)
fn text_int(c: &str, ty: &str) -> (String, Option<i128>) {
    let (min, max): (i128, i128) = match ty {
        "u8" => (0, u8::MAX as i128),
        "u32" => (0, u32::MAX as i128),
        _ => (i64::MIN as i128, i64::MAX as i128),
    };
    match c {
        "zero" => ("0".into(), Some(0)),
        "min" => (min.to_string(), Some(min)),
        "max" => (max.to_string(), Some(max)),
        "over" => ((max + 1).to_string(), None),
        "under" => ((min - 1).to_string(), None),
        "alpha" => ("12a".into(), None),
        "float" => ("1.5".into(), None),
        "plus_sign" => ("+7".into(), Some(7)),
        "leading_space" => (" 7".into(), None),
        "hex" => ("0x10".into(), None),
        "leading_zero" => ("007".into(), Some(7)),
        _ => ("".into(), None),
    }
}

fn text_value(r: &mut StdRng, ty: &str, c: &str) -> (String, Option<Value>) {
    match ty {
        "string" => {
            let s = text_string(r, c);
            (s.clone(), Some(json!(s)))
        }
        _ if ty != "string" && c == "message_like" => (message_like(r), None),
        _ if ty != "string" && c == "long_unicode" => (long_unicode(r), None),
        "bool" => match c {
            "true" => ("true".into(), Some(json!(true))),
            "false" => ("false".into(), Some(json!(false))),
            "upper" => ("TRUE".into(), None),
            "one" => ("1".into(), None),
            "yes" => ("yes".into(), None),
            _ => ("".into(), None),
        },
        "enum" => match c {
            "member" => ("red".into(), Some(json!("red"))),
            "other_member" => ("green".into(), Some(json!("green"))),
            "non_member" => ("blue".into(), None),
            "wrong_case" => ("RED".into(), None),
            _ => ("".into(), None),
        },
        _ => {
            let (t, v) = text_int(c, ty);
            (t, v.map(|x| if x >= 0 { json!(x as u64) } else { json!(x as i64) }))
        }
    }
}

const INVALID_MARK: &str = "\u{e000}INVALID\u{e000}";

fn enc_query_component(r: &mut StdRng, s: &str) -> String {
    if s.contains(INVALID_MARK) {
        let bad = ["%ff", "%C0%AF", "%80", "%ed%a0%80"][r.gen_range(0..4)];
        return s.replace(INVALID_MARK, bad);
    }
    // application/x-www-form-urlencoded: space as '+' or %20, everything else %XX
    let mut out = String::new();
    for &b in s.as_bytes() {
        if b == b' ' {
            out.push_str(if r.gen_bool(0.5) { "+" } else { "%20" });
        } else if (b.is_ascii_alphanumeric() || b"-_.~".contains(&b)) && !r.gen_bool(0.05) {
            out.push(b as char);
        } else if b":@/?!$'()*,;".contains(&b) && r.gen_bool(0.3) {
            // legal unencoded in a query (RFC 3986) and without meaning in form encoding
            out.push(b as char);
        } else if r.gen_bool(0.5) {
            out.push_str(&format!("%{:02x}", b));
        } else {
            out.push_str(&format!("%{:02X}", b));
        }
    }
    out
}

fn qopt_with(ty: &str, v: &Value) -> QOpt {
    let mut q = QOpt::default();
    match ty {
        "string" => q.qs = v.as_str().map(|s| s.to_string()),
        "u8" => q.qu8 = v.as_u64().map(|x| x as u8),
        "u32" => q.qu32 = v.as_u64().map(|x| x as u32),
        "i64" => q.qi64 = v.as_i64(),
        "bool" => q.qb = v.as_bool(),
        _ => q.qe = match v.as_str() { Some("red") => Some(Color::Red), Some("green") => Some(Color::Green), _ => None },
    }
    q
}
fn qkey(ty: &str) -> &'static str {
    match ty { "string" => "qs", "u8" => "qu8", "u32" => "qu32", "i64" => "qi64", "bool" => "qb", _ => "qe" }
}

fn random_j(r: &mut StdRng, flavor: &str) -> J {
    let s = match flavor {
        "unicode" => "é日本😀\u{200b}".to_string(),
        "escapes" => "quote\" backslash\\ newline\n tab\t nul\u{0} slash/ unit\u{1f}".to_string(),
        _ => text_string(r, "plain"),
    };
    let (i, u) = if flavor == "extremes" {
        (if r.gen_bool(0.5) { i64::MIN } else { i64::MAX }, u64::MAX)
    } else {
        (r.gen_range(-1000..1000), r.gen_range(0..1000))
    };
    J {
        s, i, u, b: r.gen_bool(0.5),
        o: if r.gen_bool(0.5) { Some(text_string(r, "plain")) } else { None },
        v: (0..r.gen_range(0..4)).map(|_| if flavor == "extremes" { u32::MAX } else { r.gen_range(0..100) }).collect(),
        e: if r.gen_bool(0.5) { Color::Red } else { Color::Green },
        k: match r.gen_range(0..3) { 0 => Shape::Circle { r: r.gen_range(0..10) }, 1 => Shape::Rect { w: 1, h: 2 }, _ => Shape::Empty },
    }
}

fn build(r: &mut StdRng, n: &str, comps: &[Value], valid: bool) -> Built {
    let mut method = "GET";
    let mut target = String::new();
    let mut query: Vec<String> = vec![];
    let mut want_query = QOpt::default();
    let mut want_path: Option<Value> = None;
    let mut body: Option<Vec<u8>> = None;
    let mut want_body: Option<Value> = None;
    let mut headers: Vec<(String, String)> = vec![("x-verif-nonce".to_string(), n.to_string())];
    let mut chunked = false;
    let mut base = "path-string";
    let mut want_whole: Option<Value> = None;
    for x in comps {
        let (pos, ty, c) = (jstr(&x["pos"]), jstr(&x["ty"]), jstr(&x["c"]));
        match pos.as_str() {
            "path" => {
                let (text, val) = text_value(r, &ty, &c);
                let enc = if text.contains(INVALID_MARK) {
                    text.replace(INVALID_MARK, ["%ff", "%C0%AF", "%80"][r.gen_range(0..3)])
                } else {
                    pct_encode_segment(r, &text)
                };
                target = format!("/p/{}/{}/{}", ty, n, enc);
                want_path = val;
                base = "path";
            }
            "wild" => {
                let segs: Vec<String> = match c.as_str() {
                    "none" => vec![],
                    "one" => vec![text_string(r, "plain")],
                    "many" => (0..r.gen_range(2..6)).map(|_| text_string(r, "plain")).collect(),
                    "encoded_slash" => vec!["a/b".to_string(), "c".to_string()],
                    _ => vec!["é".to_string(), "日本".to_string()],
                };
                let enc: Vec<String> = segs.iter().map(|s| pct_encode_segment(r, s)).collect();
                target = format!("/w/{}/{}", n, enc.join("/"));
                if segs.is_empty() && r.gen_bool(0.5) {
                    target = format!("/w/{}", n);
                }
                want_whole = Some(json!({"path": segs}));
                base = "wild";
            }
            "query" if ty != "struct" => {
                let (text, val) = text_value(r, &ty, &c);
                query.push(format!("{}={}", qkey(&ty), enc_query_component(r, &text)));
                if let Some(v) = &val {
                    let q = qopt_with(&ty, v);
                    // merge
                    if q.qs.is_some() { want_query.qs = q.qs; }
                    if q.qu8.is_some() { want_query.qu8 = q.qu8; }
                    if q.qu32.is_some() { want_query.qu32 = q.qu32; }
                    if q.qi64.is_some() { want_query.qi64 = q.qi64; }
                    if q.qb.is_some() { want_query.qb = q.qb; }
                    if q.qe.is_some() { want_query.qe = q.qe; }
                }
            }
            "query" => match c.as_str() {
                "all_absent" => {}
                "required_missing" => { target = format!("/q/req/{}", n); query.push("o=x".into()); base = "qreq"; }
                "required_present" => {
                    target = format!("/q/req/{}", n);
                    let rv: u32 = r.gen();
                    query.push(format!("r={}", rv));
                    want_whole = Some(json!({"query": QReq { r: rv, o: None }}));
                    base = "qreq";
                }
                // the key itself percent-encoded (one of its letters): the same key
                "pct_encoded_key" => {
                    target = format!("/q/req/{}", n);
                    let rv: u32 = r.gen();
                    let ov = text_string(r, "reserved");
                    query.push(format!("{}={}", ["%72", "r"][r.gen_range(0..2)], rv));
                    query.push(format!("{}={}", ["%6F", "%6f"][r.gen_range(0..2)], enc_query_component(r, &ov)));
                    want_whole = Some(json!({"query": QReq { r: rv, o: Some(ov) }}));
                    base = "qreq";
                }
                "duplicate_key" => { query.push("qu32=1".into()); query.push("qu32=2".into()); }
                "unknown_key" => { query.push("zzz=1".into()); }
                "key_without_value" => { query.push("qu32".into()); }
                _ => { query.push("".into()); query.push("qb=true".into()); query.push("".into()); want_query.qb = Some(true); }
            },
            "json" => {
                method = "PUT";
                base = "json";
                let flavor = match c.as_str() { "ok_unicode" => "unicode", "ok_extremes" => "extremes", "ok_escapes" => "escapes", _ => "plain" };
                let mut j = random_j(r, flavor);
                let good = serde_json::to_string(&j).unwrap();
                let mut ctype: Option<String> = Some("application/json".into());
                let mut raw_override: Option<Vec<u8>> = None;
                let text: String = match c.as_str() {
                    "invalid_utf8_in_string" => {
                        // well-formed JSON except for bytes inside a string literal that are not UTF-8
                        let marked = good.replacen("\"s\":\"", "\"s\":\"\u{e000}", 1);
                        let mut bytes: Vec<u8> = vec![];
                        for part in marked.split('\u{e000}').enumerate() {
                            if part.0 > 0 {
                                bytes.extend_from_slice([&b"\x80"[..], b"\xc3", b"\xc0\xaf", b"\xff"][r.gen_range(0..4)]);
                            }
                            bytes.extend_from_slice(part.1.as_bytes());
                        }
                        raw_override = Some(bytes);
                        String::new()
                    }
                    "ok" | "ok_unicode" | "ok_extremes" | "ok_escapes" => good,
                    "ok_unknown_member" => format!("{{\"zzz\":[1,{{}}],{}", &good[1..]),
                    "ok_optional_absent" => { j.o = None; let mut v = serde_json::to_value(&j).unwrap(); v.as_object_mut().unwrap().remove("o"); v.to_string() }
                    "ok_optional_null" => { j.o = None; serde_json::to_string(&j).unwrap() }
                    "ok_whitespace" => format!(" \n\t{} \r\n", good.replace(",", " ,\n ")),
                    "ok_no_content_type" => { ctype = None; good }
                    "ok_content_type_params" => { ctype = Some("application/json; charset=utf-8".into()); good }
                    "ok_content_type_case" => { ctype = Some("Application/JSON".into()); good }
                    "wrong_type" => good.replacen(&format!("\"i\":{}", j.i), "\"i\":\"seven\"", 1),
                    "over_range" => good.replacen(&format!("\"i\":{}", j.i), "\"i\":9223372036854775808", 1),
                    "negative_unsigned" => good.replacen(&format!("\"u\":{}", j.u), "\"u\":-1", 1),
                    "float_for_int" => good.replacen(&format!("\"i\":{}", j.i), "\"i\":1.5", 1),
                    "unknown_variant" => good.replacen(if j.e == Color::Red { "\"e\":\"red\"" } else { "\"e\":\"green\"" }, "\"e\":\"blue\"", 1),
                    "missing_field" => { let mut v = serde_json::to_value(&j).unwrap(); v.as_object_mut().unwrap().remove("b"); v.to_string() }
                    "null_for_required" => {
                        let mut v = serde_json::to_value(&j).unwrap();
                        let k = ["s", "i", "u", "b", "v", "e", "k"][r.gen_range(0..7)];
                        v.as_object_mut().unwrap().insert(k.to_string(), Value::Null);
                        v.to_string()
                    }
                    "whitespace_body" => [" ", "\n", "\t\r\n  "][r.gen_range(0..3)].to_string(),
                    "duplicate_field" => format!("{{\"b\":true,{}", &good[1..]),
                    "truncated" => good[..good.len() - r.gen_range(1..10)].to_string(),
                    "trailing_comma" => format!("{},}}", &good[..good.len() - 1]),
                    "trailing_content" => format!("{}{}", good, [" x", "}", " 1", ",", "]"][r.gen_range(0..5)]),
                    "second_document" => format!("{}{}", good, good),
                    "not_json" => "this is not json".to_string(),
                    "empty_body" => String::new(),
                    // another content type that dropshot knows, but not this endpoint's
                    "wrong_content_type" => {
                        ctype = Some(["application/x-www-form-urlencoded", "application/octet-stream", "multipart/form-data; boundary=XyZ",
                            "Application/Octet-Stream", "multipart/form-data"][r.gen_range(0..5)].into());
                        good
                    }
                    // a content type dropshot does not know at all
                    "unsupported_content_type" => {
                        ctype = Some(if r.gen_bool(0.5) {
                            ["text/plain", "application/xml", "application/jsonx", "image/png", "*/*", "application/json-patch+json"][r.gen_range(0..6)].into()
                        } else {
                            // header values with bytes beyond ASCII are legal on the wire (obs-text) and name no content type dropshot knows
                            ["text/plain; name=caf\u{e9}", "application/j\u{f8}son", "\u{65e5}\u{672c}/json", "application/json; charset=\u{fc}tf-8"][r.gen_range(0..4)].into()
                        });
                        good
                    }
                    "null_body" => "null".to_string(),
                    _ => "[1,2,3]".to_string(),
                };
                target = format!("/b/json/{}", n);
                if let Some(ct) = ctype { headers.push(("content-type".into(), ct)); }
                body = Some(raw_override.unwrap_or_else(|| text.into_bytes()));
                chunked = r.gen_bool(0.5);
                want_body = Some(serde_json::to_value(&j).unwrap());
            }
            "form" => {
                method = "PUT";
                base = "form";
                let mut f = F { s: text_string(r, "plain"), u: r.gen(), b: r.gen_bool(0.5), o: None };
                let mut ctype = "application/x-www-form-urlencoded".to_string();
                match c.as_str() {
                    "ok_plus_space" => f.s = "a b+c".into(),
                    "ok_pct" => f.s = "100% &=?#".into(),
                    "ok_unicode" => f.s = "é日本".into(),
                    "invalid_utf8" => f.s = format!("x{}y", INVALID_MARK),
                    _ => {}
                }
                let mut parts = vec![
                    format!("s={}", enc_query_component(r, &f.s)),
                    format!("u={}", f.u),
                    format!("b={}", f.b),
                ];
                match c.as_str() {
                    "wrong_type" => parts[1] = "u=many".into(),
                    "missing_field" => { parts.remove(2); }
                    "duplicate_field" => parts.push("u=5".into()),
                    // (class name kept; any known content type other than the endpoint's)
                    "json_content_type" => ctype = ["application/json", "application/octet-stream", "multipart/form-data; boundary=q"][r.gen_range(0..3)].into(),
                    "empty_body" => parts.clear(),
                    _ => {}
                }
                target = format!("/b/form/{}", n);
                headers.push(("content-type".into(), ctype));
                body = Some(parts.join("&").into_bytes());
                chunked = r.gen_bool(0.3);
                want_whole = Some(json!({"body": f}));
            }
            "raw" => {
                method = "PUT";
                base = "raw";
                let bytes: Vec<u8> = match c.as_str() {
                    "empty" => vec![],
                    "binary" => (0..r.gen_range(1..300)).map(|_| r.gen()).collect(),
                    "text" => "plain text é日本 \r\n\r\n GET / HTTP/1.1".as_bytes().to_vec(),
                    _ => (0..r.gen_range(100000..300000)).map(|_| r.gen()).collect(),
                };
                target = format!("/b/{}/{}", if r.gen_bool(0.5) { "raw" } else { "rawreq" }, n);
                headers.push(("content-type".into(), "application/octet-stream".into()));
                want_whole = Some(json!({"body": hex(&bytes)}));
                body = Some(bytes);
                chunked = r.gen_bool(0.5);
            }
            _ => {
                method = "POST";
                base = "multipart";
                let boundary = "XyZ123";
                let f1: Vec<u8> = if c == "binary_field" { (0..100).map(|_| r.gen()).filter(|b| *b != b'-').collect() } else { text_string(r, "unicode").into_bytes() };
                let mut fields = vec![("first".to_string(), f1)];
                if c == "two_fields" { fields.push(("second".to_string(), b"2".to_vec())); }
                let mut b: Vec<u8> = vec![];
                for (name, data) in &fields {
                    b.extend_from_slice(format!("--{}\r\ncontent-disposition: form-data; name=\"{}\"\r\n\r\n", boundary, name).as_bytes());
                    b.extend_from_slice(data);
                    b.extend_from_slice(b"\r\n");
                }
                b.extend_from_slice(format!("--{}--\r\n", boundary).as_bytes());
                let ctype: Option<String> = match c.as_str() {
                    "quoted_boundary" => Some(format!("multipart/form-data; boundary=\"{}\"", boundary)),
                    "boundary_then_param" => Some(format!("multipart/form-data; boundary={}; charset=utf-8", boundary)),
                    "param_then_boundary" => Some(format!("multipart/form-data; charset=utf-8; boundary={}", boundary)),
                    "missing_boundary" => Some("multipart/form-data".to_string()),
                    "no_content_type" => None,
                    _ => Some(format!("multipart/form-data; boundary={}", boundary)),
                };
                if let Some(ct) = ctype { headers.push(("content-type".into(), ct)); }
                target = format!("/b/multipart/{}", n);
                want_whole = Some(json!({"body": fields.iter().map(|(k, v)| json!([k, hex(v)])).collect::<Vec<_>>()}));
                body = Some(b);
                chunked = r.gen_bool(0.3);
            }
        }
    }
    if target.is_empty() {
        // query-only case: carried by the string path endpoint
        let v = text_string(r, "plain");
        target = format!("/p/string/{}/{}", n, v);
        want_path = Some(json!(v));
        base = "path";
    }
    if !query.is_empty() {
        // random order of the query parameters
        for i in (1..query.len()).rev() { let j = r.gen_range(0..=i); query.swap(i, j); }
        target.push('?');
        target.push_str(&query.join("&"));
    }
    let want = if !valid {
        None
    } else if let Some(w) = want_whole {
        Some(w)
    } else {
        match base {
            "path" => Some(json!({"path": want_path.unwrap_or(Value::Null), "query": want_query})),
            "json" => Some(json!({"query": want_query, "body": want_body.unwrap()})),
            _ => Some(json!({})),
        }
    };
    Built { method, target, headers, body, chunked, want }
}

fn request_bytes(r: &mut StdRng, b: &Built, trailers_ok: bool) -> Vec<u8> {
    match &b.body {
        None => httpc::build_request(b.method, &b.target, &b.headers, None),
        Some(body) if !b.chunked => httpc::build_request(b.method, &b.target, &b.headers, Some(body)),
        Some(body) => {
            let mut h = b.headers.clone();
            h.push(("transfer-encoding".into(), "chunked".into()));
            let mut req = httpc::build_request(b.method, &b.target, &h, None);
            let mut sizes = vec![];
            let mut left = body.len();
            while left > 0 {
                let s = r.gen_range(1..=7.min(left).max(1)).min(left);
                let s = if r.gen_bool(0.3) { left } else { s };
                sizes.push(s);
                left -= s;
            }
            let ext = r.gen_bool(0.3);
            let trailer = r.gen_bool(0.3) && trailers_ok;
            req.extend_from_slice(&httpc::chunked_body(body, &sizes, ext, trailer));
            req
        }
    }
}

async fn send_one(addr: std::net::SocketAddr, n: String, case: Value, valid: bool, built: Built, bytes: Vec<u8>) {
    let sock = tokio::net::TcpSocket::new_v4().unwrap();
    sock.bind("127.0.0.1:0".parse().unwrap()).unwrap();
    let port = sock.local_addr().unwrap().port();
    emit("flow_send", json!({"n": n, "case": case, "valid": valid, "port": port, "m": built.method,
        "target_hex": hex(built.target.as_bytes()),
        "want_hex": built.want.as_ref().map(|w| hex(serde_json::to_string(w).unwrap().as_bytes())).unwrap_or_default()}));
    let Ok(mut s) = sock.connect(addr).await else {
        emit("client_noresp", json!({"n": n, "problem": "connect"}));
        return;
    };
    let _ = s.set_nodelay(true);
    let _ = s.write_all(&bytes).await;
    let mut rd = httpc::Reader::new();
    let resp = rd.read_response(&mut s, false, Duration::from_secs(20)).await;
    if resp.wellformed {
        emit("client_recv", json!({"n": n, "status": resp.status, "idhdr": resp.headers_all("x-request-id")}));
    } else {
        emit("client_noresp", json!({"n": n, "problem": resp.problem}));
    }
    httpc::note_answered(resp.wellformed);
}

type Job = (String, Value, bool, Built, Vec<u8>);

/// One request on a connection of its own over TLS.  Many of these run at once, next to connections that
/// never start their handshake, so handshakes complete in an order of their own.
async fn send_one_tls(addr: std::net::SocketAddr, connector: tokio_rustls::TlsConnector, n: String, case: Value, valid: bool, built: Built, bytes: Vec<u8>) {
    let sock = tokio::net::TcpSocket::new_v4().unwrap();
    sock.bind("127.0.0.1:0".parse().unwrap()).unwrap();
    let port = sock.local_addr().unwrap().port();
    emit_send(&n, &case, valid, port, &built, &built.target);
    let Ok(s) = sock.connect(addr).await else {
        emit("client_noresp", json!({"n": n, "problem": "connect"}));
        return;
    };
    let _ = s.set_nodelay(true);
    let name = rustls::pki_types::ServerName::try_from("localhost").unwrap();
    let mut s = match tokio::time::timeout(Duration::from_secs(20), connector.connect(name, s)).await {
        Ok(Ok(t)) => t,
        _ => {
            emit("client_noresp", json!({"n": n, "problem": "tls handshake"}));
            return;
        }
    };
    let _ = s.write_all(&bytes).await;
    let mut rd = httpc::Reader::new();
    let resp = rd.read_response(&mut s, false, Duration::from_secs(20)).await;
    if resp.wellformed {
        emit("client_recv", json!({"n": n, "status": resp.status, "idhdr": resp.headers_all("x-request-id"), "tls": true}));
    } else {
        emit("client_noresp", json!({"n": n, "problem": resp.problem, "tls": true}));
    }
    httpc::note_answered(resp.wellformed);
}

fn emit_send(n: &str, case: &Value, valid: bool, port: u16, built: &Built, target: &str) {
    emit("flow_send", json!({"n": n, "case": case, "valid": valid, "port": port, "m": built.method,
        "target_hex": hex(target.as_bytes()),
        "want_hex": built.want.as_ref().map(|w| hex(serde_json::to_string(w).unwrap().as_bytes())).unwrap_or_default()}));
}

/// Several requests written back to back on one HTTP/1.1 connection before any response is read (pipelining);
/// the responses must come back in order, each handler seeing only its own request.
async fn send_pipelined(addr: std::net::SocketAddr, group: Vec<Job>) {
    let sock = tokio::net::TcpSocket::new_v4().unwrap();
    sock.bind("127.0.0.1:0".parse().unwrap()).unwrap();
    let port = sock.local_addr().unwrap().port();
    let mut all = vec![];
    for (n, case, valid, built, bytes) in &group {
        emit_send(n, case, *valid, port, built, &built.target);
        all.extend_from_slice(bytes);
    }
    let Ok(mut s) = sock.connect(addr).await else {
        for (n, ..) in &group {
            emit("client_noresp", json!({"n": n, "problem": "connect"}));
        }
        return;
    };
    let _ = s.set_nodelay(true);
    let _ = s.write_all(&all).await;
    let mut rd = httpc::Reader::new();
    for (n, ..) in &group {
        let resp = rd.read_response(&mut s, false, Duration::from_secs(20)).await;
        if resp.wellformed {
            emit("client_recv", json!({"n": n, "status": resp.status, "idhdr": resp.headers_all("x-request-id"), "pipelined": true}));
        } else {
            emit("client_noresp", json!({"n": n, "problem": resp.problem, "pipelined": true}));
        }
    }
}

/// Several requests as concurrent streams of one HTTP/2 connection.  Requests whose target hyper's client
/// refuses to encode are returned to be sent the plain way.
async fn send_h2(addr: std::net::SocketAddr, group: Vec<Job>) -> Vec<Job> {
    let mut rest = vec![];
    let sock = tokio::net::TcpSocket::new_v4().unwrap();
    sock.bind("127.0.0.1:0".parse().unwrap()).unwrap();
    let port = sock.local_addr().unwrap().port();
    let Ok(s) = sock.connect(addr).await else { return group };
    let _ = s.set_nodelay(true);
    let io = hyper_util::rt::TokioIo::new(s);
    let Ok((sender, conn)) = hyper::client::conn::http2::handshake::<_, _, http_body_util::Full<bytes::Bytes>>(hyper_util::rt::TokioExecutor::new(), io).await else {
        return group;
    };
    let driver = tokio::spawn(async move {
        let _ = conn.await;
    });
    let mut tasks = vec![];
    for job in group {
        let (n, case, valid, built, _) = &job;
        let absolute = format!("http://localhost{}", built.target);
        let mut b = http::Request::builder().method(built.method).uri(absolute.as_str());
        for (k, v) in &built.headers {
            let k = k.to_ascii_lowercase();
            if k == "content-length" || k == "transfer-encoding" || k == "connection" || k == "host" {
                continue;
            }
            b = b.header(k.as_str(), v.as_bytes());
        }
        let body = http_body_util::Full::new(bytes::Bytes::from(built.body.clone().unwrap_or_default()));
        let req = match b.body(body) {
            // the client must be able to say exactly what it means: same path-and-query bytes
            Ok(rq) if rq.uri().path_and_query().map(|pq| pq.as_str()) == Some(built.target.as_str()) => rq,
            _ => {
                rest.push(job);
                continue;
            }
        };
        emit_send(n, case, *valid, port, built, &absolute);
        let mut sender = sender.clone();
        let n = n.clone();
        tasks.push(tokio::spawn(async move {
            if sender.ready().await.is_err() {
                emit("client_noresp", json!({"n": n, "problem": "h2 not ready"}));
                return;
            }
            match tokio::time::timeout(Duration::from_secs(20), sender.send_request(req)).await {
                Ok(Ok(resp)) => {
                    let status = resp.status().as_u16();
                    let idhdr: Vec<String> = resp.headers().get_all("x-request-id").iter().map(|v| v.to_str().unwrap_or("?").to_string()).collect();
                    use http_body_util::BodyExt;
                    let _ = resp.into_body().collect().await;
                    emit("client_recv", json!({"n": n, "status": status, "idhdr": idhdr, "h2": true}));
                }
                Ok(Err(e)) => emit("client_noresp", json!({"n": n, "problem": format!("h2: {}", e)})),
                Err(_) => emit("client_noresp", json!({"n": n, "problem": "h2 timeout"})),
            }
        }));
    }
    for t in tasks {
        let _ = t.await;
    }
    drop(sender);
    driver.abort();
    rest
}

fn make_api() -> ApiDescription<()> {
    let mut api = ApiDescription::new();
    api.register(ep_flow_p_string).unwrap();
    api.register(ep_flow_p_u8).unwrap();
    api.register(ep_flow_p_u32).unwrap();
    api.register(ep_flow_p_i64).unwrap();
    api.register(ep_flow_p_bool).unwrap();
    api.register(ep_flow_p_enum).unwrap();
    api.register(ep_flow_wild).unwrap();
    api.register(ep_flow_qreq).unwrap();
    api.register(ep_flow_json).unwrap();
    api.register(ep_flow_form).unwrap();
    api.register(ep_flow_raw).unwrap();
    api.register(ep_flow_rawreq).unwrap();
    api.register(ep_flow_multipart).unwrap();
    api
}

fn main() {
    let args: Vec<String> = std::env::args().collect();
    let thorough = args[1] == "thorough";
    let cases: Value = serde_json::from_str(&std::fs::read_to_string(&args[2]).unwrap()).unwrap();
    let out = args[3].clone();
    quiet_panics();
    dropshot::verif::install_memory_sink();
    verif_harness::campaign_budget(&out);
    httpc::stop_early_into(&out);
    let seed = seed_from_env();
    let rt = tokio::runtime::Builder::new_multi_thread().worker_threads(6).enable_all().build().unwrap();
    rt.block_on(async {
        let api = make_api();
        let log = slog::Logger::root(slog::Discard, slog::o!());
        let config = ConfigDropshot {
            bind_address: "127.0.0.1:0".parse().unwrap(),
            default_request_body_max_bytes: 100000,
            ..Default::default()
        };
        let server = ServerBuilder::new(api, (), log).config(config.clone()).start().expect("server");
        let addr = server.local_addr();
        // the same API behind TLS
        let ck = rcgen::generate_simple_self_signed(vec!["localhost".to_string()]).expect("self-signed certificate");
        let tls_server = ServerBuilder::new(make_api(), (), slog::Logger::root(slog::Discard, slog::o!()))
            .config(config)
            .tls(Some(dropshot::ConfigTls::AsBytes { certs: ck.cert.pem().into_bytes(), key: ck.key_pair.serialize_pem().into_bytes() }))
            .start()
            .expect("tls server");
        let tls_addr = tls_server.local_addr();
        let mut roots = rustls::RootCertStore::empty();
        roots.add(ck.cert.der().clone()).expect("root");
        let connector = tokio_rustls::TlsConnector::from(std::sync::Arc::new(
            rustls::ClientConfig::builder().with_root_certificates(roots).with_no_client_auth(),
        ));
        let mut all: Vec<(Value, bool)> = vec![];
        for key in ["single", "pq", "qb"] {
            for c in jarr(&cases[key]) {
                all.push((c["comps"].clone(), jstr(&c["out"]) == "invoke"));
            }
        }
        let reps = if thorough { 20 } else { 5 };
        let mut r = rng(seed, 99);
        let mut ctr = 0u64;
        emit("reset", json!({"kind": "flow"}));
        for rep in 0..reps {
            // shuffle so that neighbours in a concurrent batch differ
            for i in (1..all.len()).rev() { let j = r.gen_range(0..=i); all.swap(i, j); }
            for batch in all.chunks(16) {
                // transport of this batch: one connection per request, pipelined groups on shared HTTP/1.1
                // connections, or concurrent streams of HTTP/2 connections -- all at once in every case
                let mode = r.gen_range(0..5);
                let mut jobs: Vec<Job> = vec![];
                for (comps, valid) in batch {
                    ctr += 1;
                    let n = format!("f{}x{}", rep, ctr);
                    let built = build(&mut r, &n, &jarr(comps), *valid);
                    // hyper answers a chunked request that carries a trailer section and then closes the
                    // connection (observed; the request itself is served correctly), so such a request is not
                    // followed by a pipelined one
                    let bytes = request_bytes(&mut r, &built, mode != 1);
                    jobs.push((n, comps.clone(), *valid, built, bytes));
                }
                let mut tasks = vec![];
                let mut plain: Vec<Job> = vec![];
                match mode {
                    1 => {
                        // an error response may legitimately end an HTTP/1 connection whose request body was
                        // not read, so only requests that are valid or have no body are pipelined
                        let (ok, other): (Vec<Job>, Vec<Job>) = jobs.into_iter().partition(|j| j.2 || j.3.body.is_none());
                        plain = other;
                        let mut it = ok.into_iter().peekable();
                        while it.peek().is_some() {
                            let k = r.gen_range(2..=5);
                            let group: Vec<Job> = it.by_ref().take(k).collect();
                            tasks.push(tokio::spawn(send_pipelined(addr, group)));
                        }
                    }
                    2 => {
                        let mut it = jobs.into_iter().peekable();
                        let mut h2tasks = vec![];
                        while it.peek().is_some() {
                            let k = r.gen_range(2..=8);
                            let group: Vec<Job> = it.by_ref().take(k).collect();
                            h2tasks.push(tokio::spawn(send_h2(addr, group)));
                        }
                        for t in h2tasks {
                            if let Ok(rest) = t.await {
                                plain.extend(rest);
                            }
                        }
                    }
                    3 => {
                        // over TLS, all at once, among connections that connect and then say nothing (their
                        // handshakes never complete, the others complete in whatever order they like)
                        let mut stalled = vec![];
                        for _ in 0..r.gen_range(0..4) {
                            if let Ok(s) = tokio::net::TcpStream::connect(tls_addr).await {
                                stalled.push(s);
                            }
                        }
                        let mut tls_tasks = vec![];
                        for (i, (n, comps, valid, built, bytes)) in jobs.into_iter().enumerate() {
                            if i % 3 == 1 {
                                if let Ok(s) = tokio::net::TcpStream::connect(tls_addr).await {
                                    stalled.push(s);
                                }
                            }
                            tls_tasks.push(tokio::spawn(send_one_tls(tls_addr, connector.clone(), n, comps, valid, built, bytes)));
                        }
                        for t in tls_tasks {
                            let _ = t.await;
                        }
                        drop(stalled);
                    }
                    _ => plain = jobs,
                }
                for (n, comps, valid, built, bytes) in plain {
                    tasks.push(tokio::spawn(send_one(addr, n, comps, valid, built, bytes)));
                }
                for t in tasks {
                    let _ = t.await;
                }
            }
        }
        let _ = server.close().await;
        let _ = tls_server.close().await;
    });
    let lines = dropshot::verif::take_memory();
    std::fs::write(&out, lines.join("\n") + "\n").unwrap();
    println!("{}", json!({"events": lines.len()}));
}
