//! (T) Driver for DocTruth.tla (C07): an API corpus covering the grammar of
//! parameter / body / response kinds is served by a live server; requests are
//! built *purely from the generated OpenAPI document* (documented path, the
//! parameters it marks required, bodies derived from the documented request
//! schema), sent, and the responses recorded together with the schema the
//! document gives for that status.  DocTruth.tla / JsonSchema.tla decide.
//!
//! usage: drive_doc <out.ndjson>

use dropshot::endpoint;
use dropshot::ApiDescription;
use dropshot::ConfigDropshot;
use dropshot::EmptyScanParams;
use dropshot::ErrorStatusCode;
use dropshot::HttpError;
use dropshot::HttpResponseAccepted;
use dropshot::HttpResponseCreated;
use dropshot::HttpResponseDeleted;
use dropshot::HttpResponseError;
use dropshot::HttpResponseHeaders;
use dropshot::HttpResponseOk;
use dropshot::HttpResponseSeeOther;
use dropshot::HttpResponseUpdatedNoContent;
use dropshot::PaginationParams;
use dropshot::Path;
use dropshot::Query;
use dropshot::RequestContext;
use dropshot::ResultsPage;
use dropshot::ServerBuilder;
use dropshot::TypedBody;
use dropshot::UntypedBody;
use dropshot::WhichPage;
use rand::Rng;
use schemars::JsonSchema;
use serde::Deserialize;
use serde::Serialize;
use serde_json::json;
use serde_json::Map;
use serde_json::Value;
use std::time::Duration;
use verif_harness::httpc;
use verif_harness::schema_ast::*;
use verif_harness::*;

fn emit(ev: &str, v: Value) {
    dropshot::verif::emit(ev, v);
}
fn entered(rqctx: &RequestContext<()>, op: &str) {
    let n = rqctx.request.headers().get("x-verif-nonce").and_then(|v| v.to_str().ok()).unwrap_or("").to_string();
    emit("handler_doc", json!({"op": op, "n": n}));
}

#[derive(Deserialize, Serialize, JsonSchema, Clone, Copy, PartialEq)]
#[serde(rename_all = "lowercase")]
enum Color {
    Red,
    Green,
}
/// A thing.
#[derive(Deserialize, Serialize, JsonSchema, Clone)]
struct Thing {
    id: u32,
    /// its name
    name: String,
    color: Option<Color>,
    tags: Vec<String>,
    weight: u8,
}
#[derive(Deserialize, Serialize, JsonSchema, Clone)]
struct NewThing {
    name: String,
    color: Option<Color>,
    #[serde(default)]
    tags: Vec<String>,
    #[schemars(range(min = 1, max = 100))]
    weight: u8,
}
#[derive(Deserialize, Serialize, JsonSchema, Clone)]
#[serde(tag = "kind", rename_all = "snake_case")]
enum Job {
    Resize { width: u32, height: u32 },
    Delete { force: bool },
    Noop,
}
#[derive(Deserialize, Serialize, JsonSchema, Clone)]
struct JobStatus {
    accepted: bool,
    position: u64,
}
#[derive(Deserialize, JsonSchema)]
struct IdPath {
    id: u32,
}
#[derive(Deserialize, JsonSchema)]
struct UuidPath {
    u: uuid::Uuid,
}
#[derive(Deserialize, JsonSchema)]
struct VerboseQuery {
    verbose: Option<bool>,
}
#[derive(Deserialize, JsonSchema)]
struct ListQuery {
    limit: u32,
    tag: Option<String>,
}
#[derive(Deserialize, JsonSchema)]
struct ColorQuery {
    color: Color,
}
#[derive(Deserialize, Serialize, JsonSchema)]
struct FormData {
    title: String,
    count: u16,
    flag: bool,
}
#[derive(Serialize, JsonSchema)]
struct HdrA {
    #[serde(rename = "x-a")]
    a: String,
}
#[derive(Deserialize, Serialize, JsonSchema, Clone)]
struct Sel {
    last: u32,
}
#[derive(Deserialize, JsonSchema)]
struct CodePath {
    code: u16,
}

fn thing(id: u32) -> Thing {
    Thing { id, name: format!("thing-{}", id), color: if id % 2 == 0 { Some(Color::Red) } else { None }, tags: vec!["a".into()], weight: (id % 100 + 1) as u8 }
}

#[endpoint { method = GET, path = "/things/{id}", tags = ["things"] }]
async fn doc_thing_get(rqctx: RequestContext<()>, path: Path<IdPath>, _q: Query<VerboseQuery>) -> Result<HttpResponseOk<Thing>, HttpError> {
    entered(&rqctx, "doc_thing_get");
    Ok(HttpResponseOk(thing(path.into_inner().id)))
}
#[endpoint { method = GET, path = "/things" }]
async fn doc_thing_list(rqctx: RequestContext<()>, q: Query<ListQuery>) -> Result<HttpResponseOk<Vec<Thing>>, HttpError> {
    entered(&rqctx, "doc_thing_list");
    let q = q.into_inner();
    let _ = q.tag;
    Ok(HttpResponseOk((0..q.limit.min(3)).map(thing).collect()))
}
#[endpoint { method = POST, path = "/things" }]
async fn doc_thing_create(rqctx: RequestContext<()>, body: TypedBody<NewThing>) -> Result<HttpResponseCreated<Thing>, HttpError> {
    entered(&rqctx, "doc_thing_create");
    let b = body.into_inner();
    Ok(HttpResponseCreated(Thing { id: 7, name: b.name, color: b.color, tags: b.tags, weight: b.weight }))
}
#[endpoint { method = PUT, path = "/things/{id}" }]
async fn doc_thing_update(rqctx: RequestContext<()>, _path: Path<IdPath>, _body: TypedBody<NewThing>) -> Result<HttpResponseUpdatedNoContent, HttpError> {
    entered(&rqctx, "doc_thing_update");
    Ok(HttpResponseUpdatedNoContent())
}
#[endpoint { method = DELETE, path = "/things/{id}" }]
async fn doc_thing_delete(rqctx: RequestContext<()>, _path: Path<IdPath>) -> Result<HttpResponseDeleted, HttpError> {
    entered(&rqctx, "doc_thing_delete");
    Ok(HttpResponseDeleted())
}
#[endpoint { method = POST, path = "/jobs" }]
async fn doc_job_submit(rqctx: RequestContext<()>, body: TypedBody<Job>) -> Result<HttpResponseAccepted<JobStatus>, HttpError> {
    entered(&rqctx, "doc_job_submit");
    let pos = match body.into_inner() { Job::Resize { width, .. } => width as u64, Job::Delete { .. } => 1, Job::Noop => u64::MAX };
    Ok(HttpResponseAccepted(JobStatus { accepted: true, position: pos }))
}
#[endpoint { method = GET, path = "/by-uuid/{u}" }]
async fn doc_by_uuid(rqctx: RequestContext<()>, path: Path<UuidPath>, q: Query<ColorQuery>) -> Result<HttpResponseOk<Option<Thing>>, HttpError> {
    entered(&rqctx, "doc_by_uuid");
    let _ = path.into_inner().u;
    // a nullable response: null for one colour, a thing for the other
    Ok(HttpResponseOk(if q.into_inner().color == Color::Red { None } else { Some(thing(2)) }))
}
#[endpoint { method = GET, path = "/redirect" }]
async fn doc_redirect(rqctx: RequestContext<()>) -> Result<HttpResponseSeeOther, HttpError> {
    entered(&rqctx, "doc_redirect");
    dropshot::http_response_see_other("/things/1".to_string())
}
#[endpoint { method = GET, path = "/with-headers" }]
async fn doc_with_headers(rqctx: RequestContext<()>) -> Result<HttpResponseHeaders<HttpResponseOk<Thing>, HdrA>, HttpError> {
    entered(&rqctx, "doc_with_headers");
    Ok(HttpResponseHeaders::new(HttpResponseOk(thing(3)), HdrA { a: "declared".into() }))
}
#[endpoint { method = PUT, path = "/form", content_type = "application/x-www-form-urlencoded" }]
async fn doc_form(rqctx: RequestContext<()>, body: TypedBody<FormData>) -> Result<HttpResponseOk<FormData>, HttpError> {
    entered(&rqctx, "doc_form");
    Ok(HttpResponseOk(body.into_inner()))
}
// URL-encoded body together with shared extractors (path and query)
#[endpoint { method = PUT, path = "/form/{id}", content_type = "application/x-www-form-urlencoded" }]
async fn doc_form_with_params(rqctx: RequestContext<()>, path: Path<IdPath>, q: Query<ListQuery>, body: TypedBody<FormData>) -> Result<HttpResponseOk<FormData>, HttpError> {
    entered(&rqctx, "doc_form_with_params");
    let _ = (path.into_inner().id, q.into_inner().limit);
    Ok(HttpResponseOk(body.into_inner()))
}
// JSON body together with shared extractors
#[endpoint { method = POST, path = "/things/{id}/jobs" }]
async fn doc_job_for_thing(rqctx: RequestContext<()>, path: Path<IdPath>, q: Query<VerboseQuery>, body: TypedBody<Job>) -> Result<HttpResponseCreated<JobStatus>, HttpError> {
    entered(&rqctx, "doc_job_for_thing");
    let _ = (path.into_inner().id, q.into_inner().verbose, body.into_inner());
    Ok(HttpResponseCreated(JobStatus { accepted: true, position: 1 }))
}
#[endpoint { method = PUT, path = "/raw" }]
async fn doc_raw(rqctx: RequestContext<()>, body: UntypedBody) -> Result<HttpResponseOk<usize>, HttpError> {
    entered(&rqctx, "doc_raw");
    Ok(HttpResponseOk(body.as_bytes().len()))
}
#[endpoint { method = GET, path = "/paged" }]
async fn doc_paged(rqctx: RequestContext<()>, q: Query<PaginationParams<EmptyScanParams, Sel>>) -> Result<HttpResponseOk<ResultsPage<Thing>>, HttpError> {
    entered(&rqctx, "doc_paged");
    let p = q.into_inner();
    let limit = rqctx.page_limit(&p)?.get().min(3);
    let start = match &p.page { WhichPage::First(_) => 0, WhichPage::Next(s) => s.last + 1 };
    let items: Vec<Thing> = (start..start + limit).map(thing).collect();
    Ok(HttpResponseOk(ResultsPage::new(items, &EmptyScanParams {}, |t: &Thing, _| Sel { last: t.id })?))
}
#[endpoint { method = GET, path = "/fail/{code}" }]
async fn doc_fail(rqctx: RequestContext<()>, path: Path<CodePath>) -> Result<HttpResponseOk<Thing>, HttpError> {
    entered(&rqctx, "doc_fail");
    let code = path.into_inner().code;
    match ErrorStatusCode::from_u16(code) {
        Ok(s) => match s.as_client_error() {
            Ok(c) => Err(HttpError::for_client_error(Some("Code".to_string()), c, format!("client error {}", code))),
            Err(_) => Err(HttpError::for_unavail(None, "private".to_string())),
        },
        Err(_) => Ok(HttpResponseOk(thing(9))),
    }
}

// a custom error type
#[derive(Debug, Serialize, JsonSchema)]
#[serde(tag = "error", rename_all = "snake_case")]
enum ThingyError {
    /// No thingies are currently available.
    NoThingies,
    InvalidThingy { name: String },
    Other {
        message: String,
        error_code: Option<String>,
        #[serde(skip)]
        status: Option<u16>,
    },
}
impl std::fmt::Display for ThingyError {
    fn fmt(&self, f: &mut std::fmt::Formatter<'_>) -> std::fmt::Result {
        write!(f, "{:?}", self)
    }
}
impl From<HttpError> for ThingyError {
    fn from(e: HttpError) -> Self {
        ThingyError::Other { message: e.external_message, error_code: e.error_code, status: Some(e.status_code.as_u16()) }
    }
}
impl HttpResponseError for ThingyError {
    fn status_code(&self) -> ErrorStatusCode {
        match self {
            ThingyError::NoThingies => ErrorStatusCode::SERVICE_UNAVAILABLE,
            ThingyError::InvalidThingy { .. } => ErrorStatusCode::BAD_REQUEST,
            ThingyError::Other { status, .. } => ErrorStatusCode::from_u16(status.unwrap_or(500)).unwrap_or(ErrorStatusCode::INTERNAL_SERVER_ERROR),
        }
    }
}
#[endpoint { method = GET, path = "/custom/{id}" }]
async fn doc_custom(rqctx: RequestContext<()>, path: Path<IdPath>) -> Result<HttpResponseOk<Thing>, ThingyError> {
    entered(&rqctx, "doc_custom");
    match path.into_inner().id {
        0 => Err(ThingyError::NoThingies),
        1 => Err(ThingyError::InvalidThingy { name: "one".into() }),
        id => Ok(HttpResponseOk(thing(id))),
    }
}

// A second custom error type with the *same Rust identifier* in another module (widgets::Error and
// gadgets::Error are everyday): the document must keep the two apart.
mod gadgets {
    use super::*;
    #[derive(Debug, Serialize, JsonSchema)]
    pub struct ThingyError {
        pub gadget_problem: String,
        pub retryable: bool,
        #[serde(skip)]
        pub status: u16,
    }
    impl std::fmt::Display for ThingyError {
        fn fmt(&self, f: &mut std::fmt::Formatter<'_>) -> std::fmt::Result {
            write!(f, "{:?}", self)
        }
    }
    impl From<HttpError> for ThingyError {
        fn from(e: HttpError) -> Self {
            ThingyError { gadget_problem: e.external_message, retryable: false, status: e.status_code.as_u16() }
        }
    }
    impl HttpResponseError for ThingyError {
        fn status_code(&self) -> ErrorStatusCode {
            ErrorStatusCode::from_u16(self.status).unwrap_or(ErrorStatusCode::INTERNAL_SERVER_ERROR)
        }
    }
}
#[endpoint { method = GET, path = "/gadgets/{id}" }]
async fn doc_gadget(rqctx: RequestContext<()>, path: Path<IdPath>) -> Result<HttpResponseOk<Thing>, gadgets::ThingyError> {
    entered(&rqctx, "doc_gadget");
    match path.into_inner().id {
        id if id % 3 == 0 => Err(gadgets::ThingyError { gadget_problem: "jammed".into(), retryable: true, status: 503 }),
        id if id % 3 == 1 => Err(gadgets::ThingyError { gadget_problem: "no such gadget".into(), retryable: false, status: 404 }),
        id => Ok(HttpResponseOk(thing(id))),
    }
}

// A declared response header whose type is a named type that is nothing but a reference to another named type
// (a newtype around an enum): every type reachable from a header must end up in the document.
#[derive(Serialize, JsonSchema, Clone, Copy)]
#[serde(rename_all = "snake_case")]
enum BackoffKind {
    Linear,
    Exponential,
}
#[derive(Serialize, JsonSchema, Clone, Copy)]
struct RetryPolicy(BackoffKind);
#[derive(Serialize, JsonSchema)]
struct HdrRetry {
    #[serde(rename = "x-retry-policy")]
    policy: RetryPolicy,
}
#[endpoint { method = GET, path = "/with-retry-header" }]
async fn doc_with_retry_header(rqctx: RequestContext<()>) -> Result<HttpResponseHeaders<HttpResponseOk<Thing>, HdrRetry>, HttpError> {
    entered(&rqctx, "doc_with_retry_header");
    // (typed header values are sent as strings only; this operation exists for its *document* -- the header's
    // type and what it refers to -- and always answers with an error)
    let _ = HdrRetry { policy: RetryPolicy(BackoffKind::Exponential) };
    let _ = BackoffKind::Linear;
    Err(HttpError::for_client_error(None, dropshot::ClientErrorStatusCode::GONE, "no retry policy here".to_string()))
}

/// every "$ref" of the document, with whether it resolves inside the document
fn collect_refs(doc: &Value, v: &Value, out: &mut Vec<String>) {
    match v {
        Value::Object(m) => {
            if let Some(Value::String(r)) = m.get("$ref") {
                let ok = r.starts_with("#/") && doc.pointer(&r[1..]).is_some();
                if !ok {
                    out.push(r.clone());
                }
            }
            for x in m.values() {
                collect_refs(doc, x, out);
            }
        }
        Value::Array(a) => {
            for x in a {
                collect_refs(doc, x, out);
            }
        }
        _ => {}
    }
}

// Responses the handler returns successfully but the framework cannot turn into an HTTP response (an
// illegal header value, a body that fails to serialise): the 500 it generates must be valid against the error
// schema documented for that operation -- the endpoint's own error type where it has one.
#[derive(Serialize, JsonSchema)]
struct Fussy {
    #[serde(serialize_with = "ser_fussy")]
    n: u32,
}
fn ser_fussy<S: serde::Serializer>(n: &u32, s: S) -> Result<S::Ok, S::Error> {
    if *n % 2 == 1 {
        Err(serde::ser::Error::custom("odd numbers do not serialise"))
    } else {
        s.serialize_u32(*n)
    }
}
fn header_for(id: u32) -> HdrA {
    HdrA { a: if id % 2 == 1 { "line\nbreak".into() } else { "fine".into() } }
}
#[endpoint { method = GET, path = "/custom-hdr/{id}" }]
async fn doc_custom_hdr(rqctx: RequestContext<()>, path: Path<IdPath>) -> Result<HttpResponseHeaders<HttpResponseOk<Thing>, HdrA>, ThingyError> {
    entered(&rqctx, "doc_custom_hdr");
    let id = path.into_inner().id;
    Ok(HttpResponseHeaders::new(HttpResponseOk(thing(id)), header_for(id)))
}
#[endpoint { method = GET, path = "/custom-fussy/{id}" }]
async fn doc_custom_fussy(rqctx: RequestContext<()>, path: Path<IdPath>) -> Result<HttpResponseOk<Fussy>, ThingyError> {
    entered(&rqctx, "doc_custom_fussy");
    Ok(HttpResponseOk(Fussy { n: path.into_inner().id }))
}
#[endpoint { method = GET, path = "/plain-hdr/{id}" }]
async fn doc_plain_hdr(rqctx: RequestContext<()>, path: Path<IdPath>) -> Result<HttpResponseHeaders<HttpResponseOk<Fussy>, HdrA>, HttpError> {
    entered(&rqctx, "doc_plain_hdr");
    let id = path.into_inner().id;
    Ok(HttpResponseHeaders::new(HttpResponseOk(Fussy { n: id / 4 * 2 }), header_for(id)))
}

// ---------------------------------------------------------------------------
// building requests from the document
// ---------------------------------------------------------------------------
fn resolve_ref<'a>(doc: &'a Value, v: &'a Value) -> &'a Value {
    if let Some(r) = v.get("$ref").and_then(|r| r.as_str()) {
        if let Some(t) = doc.pointer(&r[1..]) {
            return t;
        }
    }
    v
}

fn scalar_text(v: &Value) -> String {
    match v {
        Value::String(s) => s.clone(),
        other => other.to_string(),
    }
}

/// the response entry of the document that applies to `status`
fn response_entry<'a>(doc: &'a Value, op: &'a Value, status: u16) -> Option<(&'a Value, String)> {
    let rs = op.get("responses")?.as_object()?;
    let exact = status.to_string();
    let range = format!("{}XX", status / 100);
    for key in [exact.as_str(), range.as_str(), "default"] {
        if let Some(r) = rs.get(key) {
            return Some((resolve_ref(doc, r), key.to_string()));
        }
    }
    None
}

fn main() {
    let args: Vec<String> = std::env::args().collect();
    let out = args[1].clone();
    quiet_panics();
    dropshot::verif::install_memory_sink();
    verif_harness::campaign_budget(&out);
    httpc::stop_early_into(&out);
    let seed = seed_from_env();
    let rt = tokio::runtime::Builder::new_multi_thread().worker_threads(2).enable_all().build().unwrap();
    rt.block_on(async {
        let mut api = ApiDescription::new();
        api.register(doc_thing_get).unwrap();
        api.register(doc_thing_list).unwrap();
        api.register(doc_thing_create).unwrap();
        api.register(doc_thing_update).unwrap();
        api.register(doc_thing_delete).unwrap();
        api.register(doc_job_submit).unwrap();
        api.register(doc_by_uuid).unwrap();
        api.register(doc_redirect).unwrap();
        api.register(doc_with_headers).unwrap();
        api.register(doc_form).unwrap();
        api.register(doc_raw).unwrap();
        api.register(doc_form_with_params).unwrap();
        api.register(doc_job_for_thing).unwrap();
        api.register(doc_paged).unwrap();
        api.register(doc_fail).unwrap();
        api.register(doc_custom).unwrap();
        api.register(doc_gadget).unwrap();
        api.register(doc_with_retry_header).unwrap();
        api.register(doc_custom_hdr).unwrap();
        api.register(doc_custom_fussy).unwrap();
        api.register(doc_plain_hdr).unwrap();
        let doc: Value = api.openapi("doc", semver::Version::new(1, 0, 0)).json().unwrap();
        let log = slog::Logger::root(slog::Discard, slog::o!());
        let config = ConfigDropshot { bind_address: "127.0.0.1:0".parse().unwrap(), default_request_body_max_bytes: 1 << 20, ..Default::default() };
        let server = ServerBuilder::new(api, (), log).config(config).start().expect("server");
        let addr = server.local_addr();
        let defs: Map<String, Value> = doc.pointer("/components/schemas").and_then(|d| d.as_object()).cloned().unwrap_or_default();
        let ndefs = normalise_defs(Some(&defs));
        let mut r = rng(seed, 7);
        let mut ctr = 0u64;
        emit("reset", json!({"kind": "doc", "defs": ndefs}));
        let mut dangling = vec![];
        collect_refs(&doc, &doc, &mut dangling);
        emit("doc_refs", json!({"unresolved": dangling}));

        let paths = doc["paths"].as_object().cloned().unwrap_or_default();
        for (ptemplate, item) in paths {
            for (method, op) in item.as_object().cloned().unwrap_or_default() {
                let opid = jstr(&op["operationId"]);
                let params: Vec<Value> = jarr(&op["parameters"]).iter().map(|p| resolve_ref(&doc, p).clone()).collect();
                let body_spec = op.get("requestBody").map(|b| resolve_ref(&doc, b).clone());
                let (body_ctype, body_schema): (Option<String>, Option<Value>) = match &body_spec {
                    Some(b) => {
                        let content = b["content"].as_object().cloned().unwrap_or_default();
                        match content.iter().next() {
                            Some((ct, media)) => (Some(ct.clone()), media.get("schema").cloned()),
                            None => (None, None),
                        }
                    }
                    None => (None, None),
                };
                // candidate bodies: instances derived from the documented schema (valid and invalid ones;
                // the specification decides which are valid)
                let mut bodies: Vec<Option<Value>> = vec![];
                if body_schema.is_some() && body_ctype.as_deref() != Some("application/json") {
                    // only JSON bodies are judged against the schema instance by instance; for the other
                    // content types the canonical sample of the documented schema is sent
                    bodies.push(Some(sample_valid(&defs, body_schema.as_ref().unwrap(), 0)));
                } else if let Some(s) = &body_schema {
                    let mut ps = vec![];
                    probes(&defs, s, 0, &mut ps);
                    let mut seen = std::collections::BTreeSet::new();
                    ps.retain(|p| seen.insert(p.to_string()));
                    ps.truncate(120);
                    bodies.extend(ps.into_iter().map(Some));
                } else {
                    bodies.push(None);
                }
                // variants: full request per body, then one request per omitted required parameter
                let required: Vec<String> = params.iter().filter(|p| p["required"].as_bool() == Some(true) && jstr(&p["in"]) == "query").map(|p| jstr(&p["name"])).collect();
                let mut variants: Vec<(String, Option<Value>)> = bodies.iter().map(|b| (String::new(), b.clone())).collect();
                let valid_body = body_schema.as_ref().map(|s| sample_valid(&defs, s, 0));
                for rq in &required {
                    variants.push((rq.clone(), valid_body.clone()));
                }
                // (the property speaks of required *parameters*; an omitted body is not asserted either way)
                for (omitted, body) in variants {
                    // several parameter instantiations for the plain variant
                    let reps = if omitted.is_empty() && body_schema.is_none() { 6 } else { 1 };
                    for rep in 0..reps {
                        ctr += 1;
                        let n = format!("d{}", ctr);
                        let mut target = ptemplate.clone();
                        let mut query: Vec<String> = vec![];
                        for p in &params {
                            let name = jstr(&p["name"]);
                            let schema = resolve(&defs, &p.get("schema").cloned().unwrap_or(json!({})), 0).clone();
                            let mut cands = vec![];
                            probes(&defs, &schema, 0, &mut cands);
                            cands.retain(|c| !c.is_object() && !c.is_array() && !c.is_null());
                            let sample = sample_valid(&defs, &schema, 0);
                            // rep 0: the canonical valid sample; later reps: other schema-derived scalars that the
                            // parameter's schema accepts according to a quick structural check (same JSON type)
                            let same_type: Vec<Value> = cands.into_iter().filter(|c| {
                                std::mem::discriminant(c) == std::mem::discriminant(&sample)
                                    && !(c.is_string() && c.as_str() == Some(""))
                                    && schema.get("enum").map(|e| jarr(e).contains(c)).unwrap_or(true)
                                    && !(schema.get("format").is_some() && c.is_string())
                                    && c.as_f64().map(|f| f >= schema.get("minimum").and_then(|m| m.as_f64()).unwrap_or(f64::MIN)
                                        && f <= schema.get("maximum").and_then(|m| m.as_f64()).unwrap_or(f64::MAX) && f.fract() == 0.0).unwrap_or(true)
                            }).collect();
                            let val = if rep == 0 || same_type.is_empty() { sample } else { same_type[r.gen_range(0..same_type.len())].clone() };
                            match jstr(&p["in"]).as_str() {
                                "path" => target = target.replace(&format!("{{{}}}", name), &pct_encode_plain(&scalar_text(&val))),
                                "query" => {
                                    if p["required"].as_bool() == Some(true) && name != omitted {
                                        query.push(format!("{}={}", name, pct_encode_plain(&scalar_text(&val))));
                                    }
                                }
                                _ => {}
                            }
                        }
                        if !query.is_empty() {
                            target = format!("{}?{}", target, query.join("&"));
                        }
                        let mut headers = vec![("x-verif-nonce".to_string(), n.clone())];
                        let body_bytes: Option<Vec<u8>> = match (&body, &body_ctype) {
                            (Some(b), Some(ct)) => {
                                headers.push(("content-type".to_string(), ct.clone()));
                                Some(match ct.as_str() {
                                    "application/x-www-form-urlencoded" => match b.as_object() {
                                        Some(o) => o.iter().map(|(k, v)| format!("{}={}", pct_encode_plain(k), pct_encode_plain(&scalar_text(v)))).collect::<Vec<_>>().join("&").into_bytes(),
                                        None => b.to_string().into_bytes(),
                                    },
                                    "application/octet-stream" => scalar_text(b).into_bytes(),
                                    _ => b.to_string().into_bytes(),
                                })
                            }
                            _ => None,
                        };
                        let m = method.to_uppercase();
                        let req = httpc::build_request(&m, &target, &headers, body_bytes.as_deref().or(if m == "GET" || m == "DELETE" { None } else { Some(b"") }));
                        // bodies of non-JSON content types are only meaningful for the canonical sample
                        let body_checkable = body_ctype.as_deref() == Some("application/json");
                        emit("doc_request", json!({"n": n, "op": opid, "m": m, "target": target, "omitted": omitted,
                            "has_body": body.is_some() && body_checkable,
                            "body": body.as_ref().filter(|_| body_checkable).map(tag_value).unwrap_or(json!({"t": "null"})),
                            "schema": body_schema.as_ref().filter(|_| body_checkable).map(normalise).unwrap_or(normalise(&json!(true))),
                            "body_is_sample": body.as_ref().map(|b| Some(b) == valid_body.as_ref()).unwrap_or(true)}));
                        let resp = httpc::oneshot(addr, &req, false, Duration::from_secs(10)).await.unwrap_or_default();
                        // what the document says about this status
                        let entry = response_entry(&doc, &op, resp.status);
                        let ctype = resp.header("content-type").unwrap_or("").split(';').next().unwrap_or("").trim().to_string();
                        let (listed, key, media_schema, ctype_listed, declares_content) = match &entry {
                            None => (false, String::new(), None, false, false),
                            Some((e, key)) => {
                                let content = e.get("content").and_then(|c| c.as_object()).cloned().unwrap_or_default();
                                let media = content.get(&ctype);
                                (true, key.clone(), media.and_then(|m| m.get("schema").cloned()), media.is_some(), !content.is_empty())
                            }
                        };
                        let parsed: Option<Value> = if ctype == "application/json" { serde_json::from_slice(&resp.body).ok() } else { None };
                        emit("doc_response", json!({"n": n, "op": opid, "status": resp.status, "wellformed": resp.wellformed,
                            "ctype": ctype, "listed": listed, "listed_as": key, "ctype_listed": ctype_listed,
                            "declares_content": declares_content, "empty": resp.body.is_empty(),
                            "has_schema": media_schema.is_some() && parsed.is_some(),
                            "schema": media_schema.as_ref().map(normalise).unwrap_or(normalise(&json!(true))),
                            "body": parsed.as_ref().map(tag_value).unwrap_or(json!({"t": "null"})),
                            "json_parsed": parsed.is_some()}));
                    }
                }
            }
        }
        let _ = server.close().await;
    });
    let lines = dropshot::verif::take_memory();
    std::fs::write(&out, lines.join("\n") + "\n").unwrap();
    println!("{}", json!({"events": lines.len()}));
}
