//! scratch
use dropshot::*;
use schemars::JsonSchema;
use serde::Deserialize;
use std::time::Duration;
use tokio::io::AsyncWriteExt;
use verif_harness::httpc;

#[derive(Deserialize, JsonSchema)]
struct B { x: u32 }
#[endpoint { method = PUT, path = "/b" }]
async fn put_b(_r: RequestContext<()>, b: TypedBody<B>) -> Result<HttpResponseOk<u32>, HttpError> { Ok(HttpResponseOk(b.into_inner().x)) }
#[endpoint { method = GET, path = "/g" }]
async fn get_g(_r: RequestContext<()>) -> Result<HttpResponseOk<u32>, HttpError> { Ok(HttpResponseOk(1)) }

#[tokio::main]
async fn main() {
    let mut api = ApiDescription::new();
    api.register(put_b).unwrap();
    api.register(get_g).unwrap();
    let log = slog::Logger::root(slog::Discard, slog::o!());
    let server = ServerBuilder::new(api, (), log).config(ConfigDropshot { bind_address: "127.0.0.1:0".parse().unwrap(), ..Default::default() }).start().unwrap();
    let addr = server.local_addr();
    let body = b"{\"x\": 5}";
    for (name, ext, trailer, chunked) in [("cl", false, false, false), ("chunked", false, false, true), ("ext", true, false, true), ("trailer", false, true, true), ("both", true, true, true)] {
        let hdr = vec![("content-type".to_string(), "application/json".to_string())];
        let mut req = if chunked {
            let mut h = hdr.clone();
            h.push(("transfer-encoding".into(), "chunked".into()));
            let mut r = httpc::build_request("PUT", "/b", &h, None);
            r.extend_from_slice(&httpc::chunked_body(body, &[3, 5], ext, trailer));
            r
        } else {
            httpc::build_request("PUT", "/b", &hdr, Some(body))
        };
        req.extend_from_slice(&httpc::build_request("GET", "/g", &[], None));
        let mut s = httpc::connect(addr).await.unwrap();
        s.write_all(&req).await.unwrap();
        let mut rd = httpc::Reader::new();
        let r1 = rd.read_response(&mut s, false, Duration::from_secs(3)).await;
        let r2 = rd.read_response(&mut s, false, Duration::from_secs(3)).await;
        println!("{}: first {} {:?} conn={:?}; second {} wellformed={} problem={}", name, r1.status, String::from_utf8_lossy(&r1.body), r1.header("connection"), r2.status, r2.wellformed, r2.problem);
    }
    let _ = server.close().await;
}
