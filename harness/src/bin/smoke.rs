use dropshot::*;
use schemars::JsonSchema;
use serde::Deserialize;
#[derive(Deserialize, JsonSchema)]
/// A plain struct
struct Plain { name: String }
async fn h(_r: RequestContext<()>, _b: TypedBody<Option<Plain>>) -> Result<HttpResponseOk<Option<Plain2>>, HttpError> { Ok(HttpResponseOk(None)) }
#[derive(serde::Serialize, JsonSchema)]
struct Plain2 { x: u8 }
fn main() {
    let mut api = ApiDescription::new();
    api.register(ApiEndpoint::new("op".into(), h, http::Method::PUT, "application/json", "/t", ApiEndpointVersions::All)).unwrap();
    let d = api.openapi("t", semver::Version::new(1,0,0)).json().unwrap();
    println!("{}", serde_json::to_string_pretty(&d["paths"]).unwrap());
    println!("{}", serde_json::to_string_pretty(&d["components"]).unwrap());
}
