fn main() {
    dropshot::verif::install_memory_sink();
    dropshot::verif::emit("hello", serde_json::json!({"x": 1}));
    println!("{:?}", dropshot::verif::take_memory());
}
