//! (T) Driver for SchemaConv.tla (C08): for a corpus of Rust types, the type's
//! own JSON Schema (schemars, openapi3 settings -- what dropshot starts from)
//! and the schema found in the real OpenAPI document are re-encoded as the
//! tagged AST of JsonSchema.tla, together with probe instances derived from
//! the schemas' own constants, and single-keyword mutants of the input schema
//! (probe adequacy).  TraceSchemaConv.tla decides.
//!
//! usage: drive_schema <out.ndjson>

use dropshot::ApiDescription;
use dropshot::ApiEndpoint;
use dropshot::ApiEndpointVersions;
use dropshot::HttpError;
use dropshot::HttpResponseOk;
use dropshot::RequestContext;
use dropshot::TypedBody;
use schemars::JsonSchema;
use serde::de::DeserializeOwned;
use serde::Deserialize;
use serde::Serialize;
use serde_json::json;
use serde_json::Map;
use serde_json::Value;
use std::collections::BTreeMap;
use std::collections::BTreeSet;
use std::collections::HashMap;
use verif_harness::schema_ast::*;
use verif_harness::*;

async fn handler<T: JsonSchema + DeserializeOwned + Send + Sync + 'static>(
    _rqctx: RequestContext<()>,
    _body: TypedBody<T>,
) -> Result<HttpResponseOk<()>, HttpError> {
    Ok(HttpResponseOk(()))
}

// ---------------------------------------------------------------------------
// the corpus
// ---------------------------------------------------------------------------
/// A plain struct with documentation.
#[derive(Deserialize, Serialize, JsonSchema)]
struct Plain {
    /// the name
    name: String,
    count: u32,
    flag: bool,
}
#[derive(Deserialize, Serialize, JsonSchema)]
struct WithOptions {
    a: Option<String>,
    b: Option<u8>,
    #[serde(default)]
    c: u32,
    #[serde(default = "default_name")]
    d: String,
    #[serde(skip_serializing_if = "Option::is_none")]
    e: Option<bool>,
}
fn default_name() -> String {
    "anon".to_string()
}
#[derive(Deserialize, Serialize, JsonSchema)]
struct Nested {
    inner: Plain,
    list: Vec<Plain>,
    maybe: Option<Plain>,
}
#[derive(Deserialize, Serialize, JsonSchema)]
struct Flattened {
    id: u64,
    #[serde(flatten)]
    rest: Plain,
}
#[derive(Deserialize, Serialize, JsonSchema)]
#[serde(rename_all = "camelCase", deny_unknown_fields)]
struct Strict {
    first_field: i32,
    #[serde(rename = "2nd")]
    second_field: i64,
}
#[derive(Deserialize, Serialize, JsonSchema)]
struct Ranged {
    #[schemars(range(min = 1, max = 10))]
    small: u32,
    #[schemars(range(min = -5, max = 5))]
    signed: i32,
    #[schemars(length(min = 2, max = 4))]
    short: String,
    #[schemars(length(min = 1, max = 3))]
    few: Vec<u8>,
    #[schemars(regex(pattern = r"^[a-z]+$"))]
    lower: String,
    #[schemars(length(equal = 3))]
    exactly: String,
}
/// exclusive bounds (schemars' derive only emits inclusive ones; hand-written schemas do emit these)
fn num_schema(ty: schemars::schema::InstanceType, f: impl FnOnce(&mut schemars::schema::NumberValidation)) -> schemars::schema::Schema {
    let mut nv = schemars::schema::NumberValidation::default();
    f(&mut nv);
    schemars::schema::SchemaObject { instance_type: Some(ty.into()), number: Some(Box::new(nv)), ..Default::default() }.into()
}
fn excl_fraction(_: &mut schemars::gen::SchemaGenerator) -> schemars::schema::Schema {
    num_schema(schemars::schema::InstanceType::Number, |n| { n.minimum = Some(0.0); n.exclusive_maximum = Some(1.0); })
}
fn excl_positive(_: &mut schemars::gen::SchemaGenerator) -> schemars::schema::Schema {
    num_schema(schemars::schema::InstanceType::Number, |n| { n.exclusive_minimum = Some(0.0); })
}
fn excl_below(_: &mut schemars::gen::SchemaGenerator) -> schemars::schema::Schema {
    num_schema(schemars::schema::InstanceType::Number, |n| { n.exclusive_maximum = Some(-2.0); })
}
fn excl_open(_: &mut schemars::gen::SchemaGenerator) -> schemars::schema::Schema {
    num_schema(schemars::schema::InstanceType::Number, |n| { n.exclusive_minimum = Some(-3.0); n.exclusive_maximum = Some(3.0); })
}
fn excl_int_open(_: &mut schemars::gen::SchemaGenerator) -> schemars::schema::Schema {
    num_schema(schemars::schema::InstanceType::Integer, |n| { n.exclusive_minimum = Some(-5.0); n.exclusive_maximum = Some(5.0); })
}
fn excl_int_half(_: &mut schemars::gen::SchemaGenerator) -> schemars::schema::Schema {
    num_schema(schemars::schema::InstanceType::Integer, |n| { n.minimum = Some(1.0); n.exclusive_maximum = Some(4.0); })
}
#[derive(Deserialize, Serialize, JsonSchema)]
struct Exclusive {
    #[schemars(schema_with = "excl_fraction")]
    fraction: f64,
    #[schemars(schema_with = "excl_positive")]
    positive: f64,
    #[schemars(schema_with = "excl_below")]
    below: f64,
    #[schemars(schema_with = "excl_open")]
    open: f32,
    #[schemars(schema_with = "excl_int_open")]
    int_open: i32,
    #[schemars(schema_with = "excl_int_half")]
    int_half: u8,
}

/// enumerations that list `null` explicitly (legal, and what some generators emit for nullable enums)
fn enum_with_null(ty: schemars::schema::InstanceType, values: Vec<serde_json::Value>) -> schemars::schema::Schema {
    use schemars::schema::*;
    let mut o = SchemaObject { instance_type: Some(ty.into()), enum_values: Some(values), ..Default::default() };
    o.extensions.insert("nullable".to_string(), json!(true));
    o.into()
}
fn mode_schema(_: &mut schemars::gen::SchemaGenerator) -> schemars::schema::Schema {
    enum_with_null(schemars::schema::InstanceType::String, vec![json!("on"), json!("off"), serde_json::Value::Null])
}
fn level_schema(_: &mut schemars::gen::SchemaGenerator) -> schemars::schema::Schema {
    enum_with_null(schemars::schema::InstanceType::Integer, vec![json!(1), serde_json::Value::Null, json!(3)])
}
fn ratio_schema(_: &mut schemars::gen::SchemaGenerator) -> schemars::schema::Schema {
    enum_with_null(schemars::schema::InstanceType::Number, vec![serde_json::Value::Null, json!(2), json!(4)])
}
fn big_ids_schema(_: &mut schemars::gen::SchemaGenerator) -> schemars::schema::Schema {
    // 64-bit ids and sentinels as enum members (what `#[repr(i64)]` enums with JsonSchema_repr produce): values
    // beyond 2^53 do not survive a detour through f64
    use schemars::schema::*;
    SchemaObject {
        instance_type: Some(InstanceType::Integer.into()),
        enum_values: Some(vec![json!(1), json!(4294967297i64), json!(9007199254740993i64), json!(-1234567890123456789i64),
            json!(i64::MAX), json!(i64::MIN)]),
        ..Default::default()
    }
    .into()
}
#[derive(Deserialize, Serialize, JsonSchema)]
struct BigIds {
    #[schemars(schema_with = "big_ids_schema")]
    id: i64,
}

#[derive(Deserialize, Serialize, JsonSchema)]
struct NullInEnum {
    #[schemars(schema_with = "mode_schema")]
    mode: Option<String>,
    #[schemars(schema_with = "level_schema")]
    level: Option<i32>,
    #[schemars(schema_with = "ratio_schema")]
    ratio: Option<f64>,
}

/// object schemas whose `required` names keys that have no entry of their own under `properties`
/// (covered by additionalProperties only) -- legal JSON Schema that derive never produces
fn labels_schema(g: &mut schemars::gen::SchemaGenerator) -> schemars::schema::Schema {
    use schemars::schema::*;
    let string = g.subschema_for::<String>();
    let mut ov = ObjectValidation::default();
    ov.properties.insert("kind".to_string(), string.clone());
    ov.required.insert("kind".to_string());
    ov.required.insert("name".to_string());
    ov.additional_properties = Some(Box::new(string));
    SchemaObject { instance_type: Some(InstanceType::Object.into()), object: Some(Box::new(ov)), ..Default::default() }.into()
}
fn only_required_schema(_: &mut schemars::gen::SchemaGenerator) -> schemars::schema::Schema {
    use schemars::schema::*;
    let mut ov = ObjectValidation::default();
    ov.required.insert("id".to_string());
    SchemaObject { instance_type: Some(InstanceType::Object.into()), object: Some(Box::new(ov)), ..Default::default() }.into()
}
#[derive(Deserialize, Serialize, JsonSchema)]
struct RequiredBeyondProperties {
    #[schemars(schema_with = "labels_schema")]
    labels: std::collections::BTreeMap<String, String>,
    #[schemars(schema_with = "only_required_schema")]
    anything_with_id: serde_json::Map<String, serde_json::Value>,
}

/// limits and bounds that are exactly zero, or negative
#[derive(Deserialize, Serialize, JsonSchema)]
struct Zeros {
    #[schemars(length(max = 0))]
    empty: String,
    #[schemars(length(equal = 0))]
    none: Vec<u8>,
    #[schemars(range(min = 0, max = 0))]
    zero: i32,
    #[schemars(range(min = -10, max = -1))]
    negative: i64,
    #[schemars(range(max = 0))]
    nonpositive: i16,
    #[schemars(length(min = 0, max = 1))]
    at_most_one: Vec<String>,
    nothing: [u8; 0],
}
/// Title and description come from the doc comment.
///
/// Second paragraph.
#[derive(Deserialize, Serialize, JsonSchema)]
#[schemars(title = "Custom Title", example = "example_annotated")]
struct Annotated {
    #[schemars(description = "explicit description", title = "Member Title")]
    x: u8,
    #[deprecated]
    old: Option<String>,
    #[schemars(example = "example_u8")]
    y: u8,
}
fn example_annotated() -> Value {
    json!({"x": 1, "y": 2})
}
fn example_u8() -> u8 {
    7
}
#[derive(Deserialize, Serialize, JsonSchema)]
#[serde(rename_all = "snake_case")]
enum UnitEnum {
    Alpha,
    Beta,
    GammaDelta,
}
/// Documented variants
#[derive(Deserialize, Serialize, JsonSchema)]
enum DocEnum {
    /// the first
    One,
    /// the second
    Two,
}
#[derive(Deserialize, Serialize, JsonSchema)]
enum External {
    Unit,
    Newtype(u32),
    Tuple(u8, String),
    Struct { a: u8, b: Option<String> },
}
#[derive(Deserialize, Serialize, JsonSchema)]
enum ExternalNoTuple {
    Unit,
    Newtype(u32),
    Struct { a: u8, b: Option<String> },
}
#[derive(Deserialize, Serialize, JsonSchema)]
#[serde(tag = "type")]
enum Internal {
    Unit,
    Struct { a: u8 },
    Other { b: String, c: Vec<u8> },
}
#[derive(Deserialize, Serialize, JsonSchema)]
#[serde(tag = "t", content = "c")]
enum Adjacent {
    Unit,
    Newtype(u32),
    Struct { a: u8 },
}
#[derive(Deserialize, Serialize, JsonSchema)]
#[serde(untagged)]
enum Untagged {
    Num(u32),
    Text(String),
    Obj { a: bool },
}
#[derive(Deserialize, Serialize, JsonSchema)]
struct Numbers {
    a: u8,
    b: u16,
    c: u32,
    d: u64,
    e: i8,
    f: i16,
    g: i32,
    h: i64,
    i: f32,
    j: f64,
    k: std::num::NonZeroU32,
    l: std::num::NonZeroU8,
    m: usize,
    n: char,
}
#[derive(Deserialize, Serialize, JsonSchema)]
struct Collections {
    set: BTreeSet<u32>,
    map: BTreeMap<String, u32>,
    hmap: HashMap<String, Plain>,
    arr: [u8; 3],
    nested: Vec<Vec<String>>,
    optvec: Option<Vec<Option<u8>>>,
}
#[derive(Deserialize, Serialize, JsonSchema)]
struct Formats {
    id: uuid::Uuid,
    ip: std::net::IpAddr,
    v4: std::net::Ipv4Addr,
    bytes: Vec<u8>,
}
#[derive(Deserialize, Serialize, JsonSchema)]
struct Recursive {
    value: u32,
    children: Vec<Recursive>,
    parent: Option<Box<Recursive>>,
}
#[derive(Deserialize, Serialize, JsonSchema)]
struct Freeform {
    any: Value,
    unit: (),
    map: Map<String, Value>,
}
#[derive(Deserialize, Serialize, JsonSchema)]
struct Newtype(u16);
#[derive(Deserialize, Serialize, JsonSchema)]
struct TupleStruct(u8, String);
#[derive(Deserialize, Serialize, JsonSchema)]
struct UnitStruct;
#[derive(Deserialize, Serialize, JsonSchema)]
struct Generic<T> {
    item: T,
    items: Vec<T>,
}
#[derive(Deserialize, Serialize, JsonSchema)]
struct WithEnumMembers {
    u: UnitEnum,
    o: Option<UnitEnum>,
    i: Internal,
    list: Vec<Adjacent>,
}

struct Collected {
    lines: Vec<Value>,
}

fn find_out_schema(doc: &Value) -> Option<Value> {
    doc.pointer("/paths/~1t/put/requestBody/content/application~1json/schema").cloned()
}

fn one<T: JsonSchema + DeserializeOwned + Send + Sync + 'static>(name: &str, col: &mut Collected) {
    // the type's own schema, generated the way dropshot generates it
    let settings = schemars::gen::SchemaSettings::openapi3();
    let generator = schemars::gen::SchemaGenerator::new(settings);
    let root = generator.into_root_schema_for::<T>();
    let root_json = serde_json::to_value(&root).unwrap();
    let defs_in: Map<String, Value> = root_json.get("definitions").and_then(|d| d.as_object()).cloned().unwrap_or_default();
    let mut in_schema = root_json.clone();
    if let Some(o) = in_schema.as_object_mut() {
        o.remove("definitions");
        o.remove("$schema");
    }
    // the published schema
    let doc = catch(std::panic::AssertUnwindSafe(|| {
        let mut api = ApiDescription::new();
        api.register(ApiEndpoint::new(
            "op".to_string(),
            handler::<T>,
            http::Method::PUT,
            "application/json",
            "/t",
            ApiEndpointVersions::All,
        ))
        .map_err(|e| e.to_string())?;
        api.openapi("t", semver::Version::new(1, 0, 0)).json().map_err(|e| e.to_string())
    }));
    let doc = match doc {
        Err(msg) => {
            // an explicit "unsupported" panic defines the type as unsupported (DESIGN section 8 rule 2)
            let explicit = ["unsupported", "cannot support", "can't have both", "invalid subschema", "null set"]
                .iter()
                .any(|p| msg.contains(p));
            col.lines.push(json!({"ev": "unsupported", "name": name, "explicit": explicit, "msg": msg.chars().take(200).collect::<String>()}));
            return;
        }
        Ok(Err(e)) => {
            col.lines.push(json!({"ev": "unsupported", "name": name, "explicit": false, "msg": e}));
            return;
        }
        Ok(Ok(d)) => d,
    };
    let defs_out: Map<String, Value> = doc.pointer("/components/schemas").and_then(|d| d.as_object()).cloned().unwrap_or_default();
    let Some(mut out_schema) = find_out_schema(&doc) else {
        col.lines.push(json!({"ev": "unsupported", "name": name, "explicit": false, "msg": "no request body schema in the document"}));
        return;
    };
    // a named type is published as a component and referenced
    let mut root_is_component = false;
    if let Some(r) = out_schema.get("$ref").and_then(|r| r.as_str()) {
        let n = r.rsplit('/').next().unwrap_or("").to_string();
        if let Some(t) = defs_out.get(&n) {
            out_schema = t.clone();
            root_is_component = true;
        }
    }
    // probes from both sides
    let mut ps: Vec<Value> = vec![];
    probes(&defs_in, &in_schema, 0, &mut ps);
    probes(&defs_out, &out_schema, 0, &mut ps);
    let mut seen = std::collections::BTreeSet::new();
    ps.retain(|p| seen.insert(p.to_string()));
    let cap: usize = std::env::var("VERIF_PROBES").ok().and_then(|s| s.parse().ok()).unwrap_or(250);
    ps.truncate(cap);
    let tagged: Vec<Value> = ps.iter().map(tag_value).collect();
    // the root title of `root_schema_for` is the type's schema name, added by the root generation itself;
    // the document names components by their key instead
    let _ = root_is_component;
    col.lines.push(json!({"ev": "convert", "name": name, "root_is_component": true,
        "in": normalise(&in_schema), "defs_in": normalise_defs(Some(&defs_in)),
        "out": normalise(&out_schema), "defs_out": normalise_defs(Some(&defs_out)),
        "probes": tagged, "raw_in": in_schema.to_string(), "raw_out": out_schema.to_string()}));
    // Adequacy is demanded for keyword occurrences up to a structural depth (deeper occurrences are the
    // top levels of other corpus types, where they are assessed); deeper mutants are counted, not judged.
    let max_depth: usize = std::env::var("VERIF_ADEQUACY_DEPTH").ok().and_then(|s| s.parse().ok()).unwrap_or(3);
    let depth_of = |what: &str| what.split('/').filter(|c| !c.is_empty() && *c != "properties" && *c != "items").count();
    let adeq: usize = std::env::var("VERIF_ADEQUACY").ok().and_then(|s| s.parse().ok()).unwrap_or(8);
    // probe adequacy: every evaluated keyword occurrence of the input schema must matter to some probe
    let mut ms = vec![];
    mutants(&in_schema, "", &mut ms);
    for (dname, dschema) in defs_in.iter() {
        let mut sub = vec![];
        mutants(dschema, &format!("#{}", dname), &mut sub);
        // a mutated definition: carried as a replaced definition list
        for (what, m) in sub.into_iter().filter(|(w, _)| depth_of(w) <= max_depth).take(adeq / 3 + 1) {
            let mut d2 = defs_in.clone();
            d2.insert(dname.clone(), m);
            col.lines.push(json!({"ev": "adequacy", "name": name, "what": what,
                "in": normalise(&in_schema), "defs_in": normalise_defs(Some(&defs_in)),
                "mut": normalise(&in_schema), "defs_mut": normalise_defs(Some(&d2)), "probes": tagged}));
        }
    }
    let deep = ms.iter().filter(|(w, _)| depth_of(w) > max_depth).count();
    if deep > 0 {
        col.lines.push(json!({"ev": "unsupported", "name": name, "explicit": true,
            "msg": format!("{} keyword occurrences deeper than {} levels not judged for probe adequacy here", deep, max_depth)}));
    }
    for (what, m) in ms.into_iter().filter(|(w, _)| depth_of(w) <= max_depth).take(adeq) {
        col.lines.push(json!({"ev": "adequacy", "name": name, "what": what,
            "in": normalise(&in_schema), "defs_in": normalise_defs(Some(&defs_in)),
            "mut": normalise(&m), "defs_mut": normalise_defs(Some(&defs_in)), "probes": tagged}));
    }
}

fn main() {
    let args: Vec<String> = std::env::args().collect();
    let out = args[1].clone();
    quiet_panics();
    let mut col = Collected { lines: vec![] };
    macro_rules! t {
        ($ty:ty) => {
            one::<$ty>(stringify!($ty), &mut col);
        };
    }
    t!(Plain);
    t!(WithOptions);
    t!(Nested);
    t!(Flattened);
    t!(Strict);
    t!(Ranged);
    t!(Annotated);
    t!(Zeros);
    t!(Exclusive);
    t!(RequiredBeyondProperties);
    t!(NullInEnum);
    t!(BigIds);
    t!([u8; 0]);
    t!([String; 1]);
    t!(UnitEnum);
    t!(DocEnum);
    t!(External);
    t!(ExternalNoTuple);
    t!(Internal);
    t!(Adjacent);
    t!(Untagged);
    t!(Numbers);
    t!(Collections);
    t!(Formats);
    t!(Recursive);
    t!(Freeform);
    t!(Newtype);
    t!(TupleStruct);
    t!(UnitStruct);
    t!(Generic<u8>);
    t!(Generic<Plain>);
    t!(WithEnumMembers);
    t!(u8);
    t!(u64);
    t!(i64);
    t!(f64);
    t!(bool);
    t!(String);
    t!(char);
    t!(());
    t!(Option<u32>);
    t!(Option<Plain>);
    t!(Vec<String>);
    t!(Vec<Plain>);
    t!(BTreeSet<String>);
    t!(BTreeMap<String, Plain>);
    t!(HashMap<String, Vec<u8>>);
    t!([u16; 4]);
    t!((u32, String));
    t!(Box<Plain>);
    t!(uuid::Uuid);
    t!(std::net::Ipv6Addr);
    t!(Value);
    t!(std::num::NonZeroU64);
    t!(Option<UnitEnum>);
    t!(Vec<Internal>);
    t!(Option<Vec<Option<Recursive>>>);
    let text: Vec<String> = col.lines.iter().map(|l| l.to_string()).collect();
    std::fs::write(&out, text.join("\n") + "\n").unwrap();
    println!("{}", json!({"events": col.lines.len(),
        "convert": col.lines.iter().filter(|l| l["ev"] == "convert").count(),
        "adequacy": col.lines.iter().filter(|l| l["ev"] == "adequacy").count(),
        "unsupported": col.lines.iter().filter(|l| l["ev"] == "unsupported").count()}));
}
