//! (R) Replay of Response.tla case tables through the real response and
//! error types: `HttpResponse::to_result()`, the redirect constructors,
//! every public `HttpError` constructor with `into_response()`, and the
//! status-code refinement types over all of u16.

use dropshot::ClientErrorStatusCode;
use dropshot::ErrorStatusCode;
use dropshot::HttpError;
use dropshot::HttpResponse;
use dropshot::HttpResponseAccepted;
use dropshot::HttpResponseCreated;
use dropshot::HttpResponseDeleted;
use dropshot::HttpResponseHeaders;
use dropshot::HttpResponseOk;
use dropshot::HttpResponseUpdatedNoContent;
use http_body_util::BodyExt;
use rand::rngs::StdRng;
use rand::Rng;
use schemars::JsonSchema;
use serde::Deserialize;
use serde::Serialize;
use serde_json::json;
use serde_json::Value;
use std::collections::BTreeMap;
use std::io::BufRead;
use std::io::Write;
use verif_harness::*;

#[derive(Serialize, Deserialize, JsonSchema, Clone, Debug, PartialEq)]
struct Payload {
    s: String,
    i: i64,
    u: u64,
    f: f64,
    b: bool,
    o: Option<String>,
    v: Vec<u32>,
    m: BTreeMap<String, String>,
    n: Option<Box<Payload>>,
}

// typed header structs: one per subset of the two declared names (the typed
// header serialiser accepts string members only)
#[derive(Serialize, JsonSchema, Clone)]
struct HdrA {
    #[serde(rename = "x-a")]
    a: String,
}
#[derive(Serialize, JsonSchema, Clone)]
struct HdrB {
    #[serde(rename = "X-B")]
    b: String,
}
#[derive(Serialize, JsonSchema, Clone)]
struct HdrAB {
    #[serde(rename = "x-a")]
    a: String,
    #[serde(rename = "X-B")]
    b: String,
}
#[derive(Serialize, JsonSchema, Clone)]
struct HdrNone {}

/// A value whose serialisation fails after part of it has been written.  A response that cannot be built must
/// be an error (5xx) and must leave nothing behind that shows up in a later response.
#[derive(Serialize, JsonSchema)]
struct HalfSerialisable {
    first: String,
    #[serde(serialize_with = "always_fails")]
    second: u32,
}
fn always_fails<S: serde::Serializer>(_: &u32, _: S) -> Result<S::Ok, S::Error> {
    Err(serde::ser::Error::custom("this member does not serialise"))
}

fn random_string(r: &mut StdRng) -> String {
    let pool = ["", "a", "Z", " ", "é", "日本", "😀", "\n", "\u{0}", "\"", "\\", "\u{7f}", "</script>", "%", "null", "\u{feff}"];
    let n = r.gen_range(0..6);
    (0..n).map(|_| pool[r.gen_range(0..pool.len())]).collect()
}

fn random_payload(r: &mut StdRng, depth: u32) -> Payload {
    let ints = [0i64, 1, -1, i64::MAX, i64::MIN, 1 << 53, -(1 << 53) - 1];
    let uints = [0u64, 1, u64::MAX, 1 << 63, (1 << 53) + 1];
    let floats = [0.0f64, -0.0, 1.5, 1e308, -1e-308, 3.141592653589793, 1e21, 123456789.125];
    Payload {
        s: random_string(r),
        i: ints[r.gen_range(0..ints.len())],
        u: uints[r.gen_range(0..uints.len())],
        f: floats[r.gen_range(0..floats.len())],
        b: r.gen_bool(0.5),
        o: if r.gen_bool(0.5) { Some(random_string(r)) } else { None },
        v: (0..r.gen_range(0..4)).map(|_| r.gen()).collect(),
        m: (0..r.gen_range(0..3)).map(|_| (random_string(r), random_string(r))).collect(),
        n: if depth < 2 && r.gen_bool(0.3) { Some(Box::new(random_payload(r, depth + 1))) } else { None },
    }
}

fn decl_value(r: &mut StdRng, class: &str) -> String {
    match class {
        "ascii" => ["v1", "a b", "text/plain; q=1", "~!@#$%^&*()", "0"][r.gen_range(0..5)].to_string(),
        "empty" => String::new(),
        "utf8" => ["é", "日本", "naïve value"][r.gen_range(0..3)].to_string(),
        _ => ["a\nb", "\r", "x\u{0}y", "\u{7f}"][r.gen_range(0..4)].to_string(),
    }
}

fn collect(resp: hyper::Response<dropshot::Body>) -> (u16, http::HeaderMap, Vec<u8>) {
    let (parts, body) = resp.into_parts();
    let rt = tokio::runtime::Builder::new_current_thread().build().unwrap();
    let bytes = rt.block_on(async { body.collect().await.map(|c| c.to_bytes().to_vec()).unwrap_or_default() });
    (parts.status.as_u16(), parts.headers, bytes)
}

fn header_values(h: &http::HeaderMap, name: &str) -> Vec<Vec<u8>> {
    h.get_all(name).iter().map(|v| v.as_bytes().to_vec()).collect()
}

fn main() {
    quiet_panics();
    let seed = seed_from_env();
    let reps: usize = std::env::var("VERIF_REPS").ok().and_then(|s| s.parse().ok()).unwrap_or(5);
    let stdin = std::io::stdin();
    let stdout = std::io::stdout();
    let mut out = stdout.lock();
    for line in stdin.lock().lines() {
        let line = line.unwrap();
        if line.trim().is_empty() {
            continue;
        }
        let vec: Value = serde_json::from_str(&line).unwrap();
        let mut r = rng(seed, 5);
        let mut mism: Vec<Value> = vec![];
        let mut executed = 0u64;

        // ------------------------------------------------------------ success
        for case in jarr(&vec["success"]) {
            for _ in 0..reps {
                executed += 1;
                let kind = jstr(&case["kind"]);
                let declared = jobj(&case["declared"]);
                let explicit = jobj(&case["explicit"]);
                let want = &case["out"];
                // now and then a response that cannot be serialised is attempted first, on this thread
                let after_failure = r.gen_bool(0.3);
                if after_failure {
                    let bad = HttpResponseOk(HalfSerialisable { first: random_string(&mut r), second: 1 });
                    match catch(std::panic::AssertUnwindSafe(|| bad.to_result())) {
                        Ok(Err(e)) if e.status_code.as_u16() >= 500 => {}
                        Ok(Err(e)) => mism.push(json!({"prop": "C12", "what": "unserialisable-value-error-class", "status": e.status_code.as_u16()})),
                        Ok(Ok(_)) => mism.push(json!({"prop": "C12", "what": "unserialisable-value-sent"})),
                        Err(msg) => mism.push(json!({"prop": "C12", "what": "panic", "msg": msg})),
                    }
                }
                let payload = random_payload(&mut r, 0);
                let da = declared.get("x-a").map(|c| decl_value(&mut r, &jstr(c)));
                let db = declared.get("x-b").map(|c| decl_value(&mut r, &jstr(c)));
                let ea = explicit.get("x-a").map(|_| format!("explicit-a-{}", r.gen::<u32>()));
                let eb = explicit.get("x-b").map(|_| format!("explicit-b-{}", r.gen::<u32>()));
                macro_rules! run1 {
                    ($body:expr, $hdrs:expr) => {{
                        let mut resp = HttpResponseHeaders::new($body, $hdrs);
                        if let Some(v) = &ea {
                            resp.headers_mut().insert("x-a", http::HeaderValue::from_str(v).unwrap());
                        }
                        if let Some(v) = &eb {
                            resp.headers_mut().insert("x-b", http::HeaderValue::from_str(v).unwrap());
                        }
                        catch(std::panic::AssertUnwindSafe(|| resp.to_result()))
                    }};
                }
                macro_rules! run {
                    ($body:expr) => {{
                        match (&da, &db) {
                            (Some(a), Some(b)) => run1!($body, HdrAB { a: a.clone(), b: b.clone() }),
                            (Some(a), None) => run1!($body, HdrA { a: a.clone() }),
                            (None, Some(b)) => run1!($body, HdrB { b: b.clone() }),
                            (None, None) => run1!($body, HdrNone {}),
                        }
                    }};
                }
                let res = match kind.as_str() {
                    "ok" => run!(HttpResponseOk(payload.clone())),
                    "created" => run!(HttpResponseCreated(payload.clone())),
                    "accepted" => run!(HttpResponseAccepted(payload.clone())),
                    "deleted" => run!(HttpResponseDeleted()),
                    _ => run!(HttpResponseUpdatedNoContent()),
                };
                let ctx = json!({"kind": kind, "declared": {"x-a": da, "x-b": db}, "explicit": {"x-a": ea, "x-b": eb},
                    "after_failed_serialisation": after_failure});
                match res {
                    Err(msg) => mism.push(json!({"prop": "C12", "what": "panic", "case": ctx, "msg": msg})),
                    Ok(Err(e)) => {
                        if jstr(&want["k"]) != "error" {
                            mism.push(json!({"prop": "C12", "what": "unexpected-error", "case": ctx,
                                "status": e.status_code.as_u16()}));
                        } else if e.status_code.as_u16() < 500 {
                            mism.push(json!({"prop": "C12", "what": "error-class", "case": ctx,
                                "status": e.status_code.as_u16()}));
                        }
                    }
                    Ok(Ok(resp)) => {
                        if jstr(&want["k"]) == "error" {
                            mism.push(json!({"prop": "C12", "what": "unsendable-header-sent", "case": ctx}));
                            continue;
                        }
                        let (status, h, body) = collect(resp);
                        if status as u64 != want["status"].as_u64().unwrap() {
                            mism.push(json!({"prop": "C12", "what": "status", "case": ctx, "got": status, "want": want["status"]}));
                        }
                        if jstr(&want["body"]) == "json" {
                            let ct = header_values(&h, "content-type");
                            if ct != vec![b"application/json".to_vec()] {
                                mism.push(json!({"prop": "C12", "what": "content-type", "case": ctx}));
                            }
                            match serde_json::from_slice::<Payload>(&body) {
                                Ok(back) if back == payload => {}
                                Ok(back) => mism.push(json!({"prop": "C12", "what": "body-differs", "case": ctx,
                                    "sent": serde_json::to_value(&payload).unwrap(), "parsed": serde_json::to_value(&back).unwrap()})),
                                Err(e) => mism.push(json!({"prop": "C12", "what": "body-unparsable", "case": ctx, "err": e.to_string()})),
                            }
                        } else if !body.is_empty() {
                            mism.push(json!({"prop": "C12", "what": "body-not-empty", "case": ctx, "len": body.len()}));
                        }
                        for (name, dv, ev) in [("x-a", &da, &ea), ("x-b", &db, &eb)] {
                            let wanted: Vec<Vec<u8>> = match (dv, ev) {
                                (_, Some(e)) => vec![e.as_bytes().to_vec()],   // explicit overrides declared
                                (Some(d), None) => vec![d.as_bytes().to_vec()],
                                (None, None) => vec![],
                            };
                            let got = header_values(&h, name);
                            if got != wanted {
                                mism.push(json!({"prop": "C12", "what": "header", "name": name, "case": ctx,
                                    "got": got.iter().map(|v| String::from_utf8_lossy(v).to_string()).collect::<Vec<_>>()}));
                            }
                        }
                    }
                }
            }
        }

        // ---------------------------------------------------------- redirects
        for case in jarr(&vec["redirect"]) {
            for _ in 0..reps {
                executed += 1;
                let kind = jstr(&case["kind"]);
                let loc = match jstr(&case["loc"]).as_str() {
                    "ascii" => ["/a/b", "https://example.com/x?y=1&z=%20", "relative", "~", " leading"][r.gen_range(0..5)].to_string(),
                    "empty" => String::new(),
                    _ => ["a\nb", "\r\nSet-Cookie: x=1", "x\u{0}", "\u{7f}"][r.gen_range(0..4)].to_string(),
                };
                let want = &case["out"];
                let res = match kind.as_str() {
                    "found" => dropshot::http_response_found(loc.clone()).and_then(|x| x.to_result()),
                    "see_other" => dropshot::http_response_see_other(loc.clone()).and_then(|x| x.to_result()),
                    _ => dropshot::http_response_temporary_redirect(loc.clone()).and_then(|x| x.to_result()),
                };
                let ctx = json!({"kind": kind, "location": loc});
                match res {
                    Err(e) => {
                        if jstr(&want["k"]) != "error" {
                            mism.push(json!({"prop": "C12", "what": "redirect-refused", "case": ctx, "status": e.status_code.as_u16()}));
                        }
                    }
                    Ok(resp) => {
                        if jstr(&want["k"]) == "error" {
                            mism.push(json!({"prop": "C12", "what": "illegal-location-sent", "case": ctx}));
                            continue;
                        }
                        let (status, h, body) = collect(resp);
                        if status as u64 != want["status"].as_u64().unwrap() {
                            mism.push(json!({"prop": "C12", "what": "status", "case": ctx, "got": status}));
                        }
                        if header_values(&h, "location") != vec![loc.as_bytes().to_vec()] {
                            mism.push(json!({"prop": "C12", "what": "location", "case": ctx}));
                        }
                        if !body.is_empty() {
                            mism.push(json!({"prop": "C12", "what": "body-not-empty", "case": ctx}));
                        }
                    }
                }
            }
        }

        // ------------------------------------------------------------- errors
        let mut nerr = 0u64;
        for case in jarr(&vec["error"]) {
            for _ in 0..reps {
                executed += 1;
                nerr += 1;
                let ctor = jstr(&case["ctor"]);
                let given_status = case["status"].as_u64().unwrap() as u16;
                let want = &case["out"];
                let public_msg = format!("public-{}-{}", nerr, random_string(&mut r));
                let private_msg = format!("PRIVATE-SENTINEL-{}-{}", nerr, r.gen::<u64>());
                let code: Option<String> = if r.gen_bool(0.5) { Some(format!("Code{}{}", nerr, random_string(&mut r))) } else { None };
                let cstat = ClientErrorStatusCode::from_u16(given_status).unwrap();
                let built = catch(std::panic::AssertUnwindSafe(|| match ctor.as_str() {
                    "for_bad_request" => HttpError::for_bad_request(code.clone(), public_msg.clone()),
                    "for_client_error" => HttpError::for_client_error(code.clone(), cstat, public_msg.clone()),
                    "for_client_error_with_status" => HttpError::for_client_error_with_status(code.clone(), cstat),
                    "for_internal_error" => HttpError::for_internal_error(private_msg.clone()),
                    "for_unavail" => HttpError::for_unavail(code.clone(), private_msg.clone()),
                    _ => HttpError::for_not_found(code.clone(), private_msg.clone()),
                }));
                let mut err = match built {
                    Ok(e) => e,
                    Err(msg) => {
                        mism.push(json!({"prop": "C13", "what": "constructor-panicked",
                            "case": {"ctor": ctor, "status": given_status}, "msg": msg}));
                        continue;
                    }
                };
                // attached headers: several values under one name plus distinct names
                let nattached = case["nattached"].as_u64().unwrap();
                let mut attached: Vec<(String, String)> = vec![];
                for i in 0..nattached {
                    let name = if i < 2 { "www-authenticate".to_string() } else { format!("x-extra-{}", i) };
                    let value = format!("value-{}-{}", i, r.gen::<u16>());
                    if r.gen_bool(0.5) {
                        err.add_header(name.as_str(), value.as_str()).unwrap();
                    } else {
                        err = err.with_header(name.as_str(), value.as_str()).unwrap();
                    }
                    attached.push((name, value));
                }
                let id = format!("req-{}-{}", nerr, r.gen::<u32>());
                let ctx = json!({"ctor": ctor, "status": given_status, "code": code, "attached": attached});
                let resp = match catch(std::panic::AssertUnwindSafe(|| err.into_response(&id))) {
                    Ok(x) => x,
                    Err(msg) => {
                        mism.push(json!({"prop": "C13", "what": "panic", "case": ctx, "msg": msg}));
                        continue;
                    }
                };
                let (status, h, body) = collect(resp);
                if status as u64 != want["status"].as_u64().unwrap() {
                    mism.push(json!({"prop": "C13", "what": "status", "case": ctx, "got": status, "want": want["status"]}));
                }
                if header_values(&h, "content-type") != vec![b"application/json".to_vec()] {
                    mism.push(json!({"prop": "C13", "what": "content-type", "case": ctx}));
                }
                if header_values(&h, "x-request-id") != vec![id.as_bytes().to_vec()] {
                    mism.push(json!({"prop": "C13", "what": "request-id-header", "case": ctx}));
                }
                let mut names: Vec<String> = attached.iter().map(|(n, _)| n.clone()).collect();
                names.dedup();
                for name in names {
                    let wanted: Vec<Vec<u8>> = attached.iter().filter(|(n, _)| *n == name).map(|(_, v)| v.as_bytes().to_vec()).collect();
                    if header_values(&h, &name) != wanted {
                        mism.push(json!({"prop": "C13", "what": "attached-header", "name": name, "case": ctx,
                            "got": header_values(&h, &name).iter().map(|v| String::from_utf8_lossy(v).to_string()).collect::<Vec<_>>()}));
                    }
                }
                let text = String::from_utf8_lossy(&body).to_string();
                if text.contains("PRIVATE-SENTINEL") || h.iter().any(|(_, v)| v.as_bytes().windows(16).any(|w| w == b"PRIVATE-SENTINEL")) {
                    mism.push(json!({"prop": "C13", "what": "internal-message-leaked", "case": ctx}));
                }
                match serde_json::from_slice::<Value>(&body) {
                    Ok(Value::Object(m)) => {
                        let want_msg = if jstr(&want["message"]) == "given" {
                            public_msg.clone()
                        } else {
                            http::StatusCode::from_u16(status).ok().and_then(|s| s.canonical_reason()).unwrap_or("").to_string()
                        };
                        let want_code: Option<String> = if jstr(&want["code"]) == "Internal" { Some("Internal".to_string()) } else { code.clone() };
                        let mut want_members = vec!["message".to_string(), "request_id".to_string()];
                        if want_code.is_some() {
                            want_members.push("error_code".to_string());
                        }
                        want_members.sort();
                        let mut got_members: Vec<String> = m.keys().cloned().collect();
                        got_members.sort();
                        if got_members != want_members {
                            mism.push(json!({"prop": "C13", "what": "body-members", "case": ctx, "got": got_members}));
                        }
                        // a status without a standard reason phrase gets whatever generic label the
                        // constructor chooses; it must be a non-empty string
                        let no_canonical = jstr(&want["message"]) != "given" && want_msg.is_empty();
                        if no_canonical {
                            if m.get("message").and_then(|x| x.as_str()).map(|x| x.is_empty()).unwrap_or(true) {
                                mism.push(json!({"prop": "C13", "what": "message-empty", "case": ctx}));
                            }
                        } else if m.get("message").and_then(|x| x.as_str()) != Some(want_msg.as_str()) {
                            mism.push(json!({"prop": "C13", "what": "message", "case": ctx, "got": m.get("message"), "want": want_msg}));
                        }
                        if m.get("request_id").and_then(|x| x.as_str()) != Some(id.as_str()) {
                            mism.push(json!({"prop": "C13", "what": "request-id-body", "case": ctx}));
                        }
                        if m.get("error_code").and_then(|x| x.as_str()).map(|x| x.to_string()) != want_code {
                            mism.push(json!({"prop": "C13", "what": "error-code", "case": ctx, "got": m.get("error_code")}));
                        }
                    }
                    _ => mism.push(json!({"prop": "C13", "what": "body-not-json-object", "case": ctx})),
                }
            }
        }

        // ----------------------------------------------- status refinement sets
        let (elo, ehi) = (vec["sets"]["error_lo"].as_u64().unwrap(), vec["sets"]["error_hi"].as_u64().unwrap());
        let (clo, chi) = (vec["sets"]["client_lo"].as_u64().unwrap(), vec["sets"]["client_hi"].as_u64().unwrap());
        for n in 0..=u16::MAX {
            executed += 1;
            let want_e = (elo..=ehi).contains(&(n as u64));
            let want_c = (clo..=chi).contains(&(n as u64));
            let got_e = ErrorStatusCode::from_u16(n).map(|s| s.as_u16() == n).unwrap_or(false);
            let got_c = ClientErrorStatusCode::from_u16(n).map(|s| s.as_u16() == n).unwrap_or(false);
            if want_e != got_e {
                mism.push(json!({"prop": "C13", "what": "error-status-set", "n": n, "want": want_e, "got": got_e}));
            }
            if want_c != got_c {
                mism.push(json!({"prop": "C13", "what": "client-error-status-set", "n": n, "want": want_c, "got": got_c}));
            }
            if let Ok(st) = http::StatusCode::from_u16(n) {
                if ErrorStatusCode::from_status(st).is_ok() != want_e {
                    mism.push(json!({"prop": "C13", "what": "error-status-from_status", "n": n}));
                }
                if ClientErrorStatusCode::from_status(st).is_ok() != want_c {
                    mism.push(json!({"prop": "C13", "what": "client-error-status-from_status", "n": n}));
                }
                if let Ok(es) = ErrorStatusCode::from_u16(n) {
                    if es.as_client_error().is_ok() != want_c {
                        mism.push(json!({"prop": "C13", "what": "as_client_error", "n": n}));
                    }
                }
            }
        }
        mism.truncate(200);
        writeln!(out, "{}", json!({"ok": mism.is_empty(), "mismatches": mism, "executed": executed})).unwrap();
    }
}
