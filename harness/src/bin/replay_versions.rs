//! (R) Replay of MC_Versions vectors (ordered pairs of version ranges).
//! Membership is observed the way the property prescribes: presence of the
//! endpoint in `openapi(title, v)` and `lookup_route(.., Some(v))`; overlap is
//! observed as refusal of the second of two same-path registrations, in both
//! orders.  Each grid is instantiated with several random strictly increasing
//! semver chains (pre-release and release versions mixed), ordered by the
//! harness's own implementation of semver precedence.

use dropshot::ApiDescription;
use dropshot::ApiEndpoint;
use dropshot::ApiEndpointVersions;
use dropshot::HttpError;
use dropshot::HttpResponseOk;
use dropshot::RequestContext;
use serde_json::json;
use serde_json::Value;
use std::io::BufRead;
use std::io::Write;
use verif_harness::*;

async fn h(_rqctx: RequestContext<()>) -> Result<HttpResponseOk<()>, HttpError> {
    Ok(HttpResponseOk(()))
}

fn range(chain: &[Sv], r: &Value) -> ApiEndpointVersions {
    let v = |k: &str| chain[r[k].as_u64().unwrap() as usize - 1].to_semver();
    match jstr(&r["k"]).as_str() {
        "all" => ApiEndpointVersions::All,
        "from" => ApiEndpointVersions::from(v("a")),
        "until" => ApiEndpointVersions::until(v("b")),
        _ => ApiEndpointVersions::from_until(v("a"), v("b")).expect("ordered pair"),
    }
}

fn ep(id: &str, r: ApiEndpointVersions) -> ApiEndpoint<()> {
    ApiEndpoint::new(id.to_string(), h, http::Method::GET, "application/json", "/m", r)
}

fn main() {
    quiet_panics();
    let seed = seed_from_env();
    let chains_per_vector: usize =
        std::env::var("VERIF_CHAINS").ok().and_then(|s| s.parse().ok()).unwrap_or(8);
    let stdin = std::io::stdin();
    let stdout = std::io::stdout();
    let mut out = stdout.lock();
    let mut n = 0u64;
    for line in stdin.lock().lines() {
        let line = line.unwrap();
        if line.trim().is_empty() {
            continue;
        }
        n += 1;
        let vec: Value = serde_json::from_str(&line).unwrap();
        let mut r = rng(seed, n);
        let probes: Vec<u64> = jarr(&vec["probes"]).iter().map(|x| x.as_u64().unwrap()).collect();
        let member: Vec<bool> = jarr(&vec["member1"]).iter().map(|x| x.as_bool().unwrap()).collect();
        let shared = vec["shared"].as_bool().unwrap();
        let mut mism: Vec<Value> = vec![];
        let mut sample_chain = vec![];
        for _ in 0..chains_per_vector {
            let chain = version_chain(&mut r, probes.len());
            let names: Vec<String> = chain.iter().map(|v| v.to_string()).collect();
            // sanity of the harness's own comparator against the chain order
            sample_chain = names.clone();
            // ---- membership ----
            let mut api = ApiDescription::new();
            api.register(ep("m1", range(&chain, &vec["r1"]))).unwrap();
            let mut in_doc = vec![];
            for (i, _p) in probes.iter().enumerate() {
                let v = chain[i].to_semver();
                let doc = api.openapi("t", v).json().unwrap();
                in_doc.push(doc["paths"]["/m"]["get"]["operationId"].as_str() == Some("m1"));
            }
            let router = api.into_router();
            for (i, _p) in probes.iter().enumerate() {
                let v = chain[i].to_semver();
                let served = router.lookup_route(&http::Method::GET, "/m".into(), Some(&v)).is_ok();
                if served != member[i] {
                    mism.push(json!({"prop": "C05", "what": "membership-lookup", "range": vec["r1"],
                        "chain": names, "probe": names[i], "want": member[i], "got": served}));
                }
                if in_doc[i] != member[i] {
                    mism.push(json!({"prop": "C05", "what": "membership-document", "range": vec["r1"],
                        "chain": names, "probe": names[i], "want": member[i], "got": in_doc[i]}));
                }
            }
            // ---- overlap, both orders ----
            for (first, second) in [("r1", "r2"), ("r2", "r1")] {
                let mut api = ApiDescription::new();
                api.register(ep("a", range(&chain, &vec[first]))).unwrap();
                let res = catch(std::panic::AssertUnwindSafe(|| {
                    api.register(ep("b", range(&chain, &vec[second])))
                }));
                let refused = !matches!(res, Ok(Ok(())));
                if refused != shared {
                    mism.push(json!({"prop": "C05", "what": "overlap", "first": vec[first],
                        "second": vec[second], "chain": names, "want_refused": shared, "got_refused": refused}));
                }
            }
        }
        writeln!(out, "{}", json!({"ok": mism.is_empty(), "mismatches": mism, "inst": sample_chain})).unwrap();
    }
}
