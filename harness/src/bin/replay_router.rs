//! (R) Replay of Router.tla state vectors through the real
//! `ApiDescription::register`, `into_router().lookup_route` and
//! `openapi(..)`.  Reads one JSON vector per line on stdin, writes one JSON
//! result per line on stdout.
//!
//! For every vector: the accepted registrations are replayed in TLC's order;
//! every candidate "next" registration is tried on a fresh copy and its
//! outcome class compared; the whole request universe is looked up and
//! compared with TLC's table; the document's operation set is compared for
//! every probe version, every `$ref` must resolve, and the document bytes must
//! be identical for every permutation of the registration order.

use dropshot::ApiDescription;
use dropshot::ApiEndpoint;
use dropshot::ApiEndpointBodyContentType;
use dropshot::ApiEndpointParameter;
use dropshot::ApiEndpointParameterLocation;
use dropshot::ApiEndpointVersions;
use dropshot::EndpointTagPolicy;
use dropshot::HttpError;
use dropshot::HttpResponseOk;
use dropshot::Path;
use dropshot::Query;
use dropshot::RequestContext;
use dropshot::SharedExtractor;
use dropshot::TagConfig;
use dropshot::TagDetails;
use rand::rngs::StdRng;
use rand::seq::SliceRandom;
use rand::Rng;
use schemars::JsonSchema;
use serde::Deserialize;
use serde_json::json;
use serde_json::Value;
use std::collections::BTreeMap;
use std::collections::BTreeSet;
use std::io::BufRead;
use std::io::Write;
use verif_harness::*;

async fn base_handler(
    _rqctx: RequestContext<()>,
) -> Result<HttpResponseOk<Vec<u32>>, HttpError> {
    Ok(HttpResponseOk(vec![]))
}

// Pool of real parameter types, one per type class.
#[derive(Deserialize, JsonSchema)]
#[allow(dead_code)]
struct PScalarString {
    f: String,
}
#[derive(Deserialize, JsonSchema)]
#[allow(dead_code)]
struct PScalarU32 {
    f: u32,
}
#[derive(Deserialize, JsonSchema)]
#[allow(dead_code)]
struct PScalarBool {
    f: bool,
}
#[derive(Deserialize, JsonSchema)]
#[allow(dead_code)]
#[serde(rename_all = "snake_case")]
enum Color {
    Red,
    Green,
}
#[derive(Deserialize, JsonSchema)]
#[allow(dead_code)]
struct PScalarEnum {
    f: Color,
}
#[derive(Deserialize, JsonSchema)]
#[allow(dead_code)]
struct PScalarOpt {
    f: Option<u8>,
}
#[derive(Deserialize, JsonSchema)]
#[allow(dead_code)]
struct PArray {
    f: Vec<String>,
}
#[derive(Deserialize, JsonSchema)]
#[allow(dead_code)]
struct Inner {
    a: u8,
}
#[derive(Deserialize, JsonSchema)]
#[allow(dead_code)]
struct POtherNested {
    f: Inner,
}
#[derive(Deserialize, JsonSchema)]
#[allow(dead_code)]
struct POtherVecU32 {
    f: Vec<u32>,
}
#[derive(Deserialize, JsonSchema)]
#[allow(dead_code)]
struct POtherMap {
    f: BTreeMap<String, String>,
}

fn one_param<T: SharedExtractor>(
    loc: ApiEndpointParameterLocation,
    name: &str,
) -> ApiEndpointParameter {
    let mut md = T::metadata(ApiEndpointBodyContentType::Json);
    let p = md.parameters.pop().expect("one parameter");
    ApiEndpointParameter::new_named(&loc, name.to_string(), None, p.required, p.schema, vec![])
}

fn param(r: &mut StdRng, path: bool, class: &str, name: &str) -> ApiEndpointParameter {
    use ApiEndpointParameterLocation as L;
    macro_rules! mk {
        ($t:ty) => {
            if path {
                one_param::<Path<$t>>(L::Path, name)
            } else {
                one_param::<Query<$t>>(L::Query, name)
            }
        };
    }
    match class {
        "s" => match r.gen_range(0..5) {
            0 => mk!(PScalarString),
            1 => mk!(PScalarU32),
            2 => mk!(PScalarBool),
            3 => mk!(PScalarEnum),
            _ => {
                if path {
                    mk!(PScalarString)
                } else {
                    mk!(PScalarOpt)
                }
            }
        },
        "a" => mk!(PArray),
        _ => match r.gen_range(0..3) {
            0 => mk!(POtherNested),
            1 => mk!(POtherVecU32),
            _ => mk!(POtherMap),
        },
    }
}

struct Inst {
    lit: BTreeMap<String, String>,
    var: BTreeMap<String, String>,
    tag: BTreeMap<String, String>,
    vers: BTreeMap<u64, Sv>,
    salt: u64,
    free_tags: bool,
}

fn tpl_path(inst: &Inst, e: &Value) -> String {
    let bad = jstr(&e["bad"]);
    match bad.as_str() {
        "noslash" => return "a/b".to_string(),
        "emptyseg" => return "/a//b".to_string(),
        "badbrace" => return "/a/{x".to_string(),
        "emptyvar" => return "/a/{}".to_string(),
        "badpat" => return "/a/{x:[0-9]+}".to_string(),
        _ => {}
    }
    let segs: Vec<String> = jarr(&e["tpl"])
        .iter()
        .map(|s| {
            let k = jstr(&s["k"]);
            let n = jstr(&s["s"]);
            match k.as_str() {
                "lit" => inst.lit[&n].clone(),
                "var" => format!("{{{}}}", inst.var[&n]),
                _ => format!("{{{}:.*}}", inst.var[&n]),
            }
        })
        .collect();
    format!("/{}", segs.join("/"))
}

fn range(inst: &Inst, r: &Value) -> ApiEndpointVersions {
    let v = |k: &str| inst.vers[&r[k].as_u64().unwrap()].to_semver();
    match jstr(&r["k"]).as_str() {
        "all" => ApiEndpointVersions::All,
        "from" => ApiEndpointVersions::from(v("a")),
        "until" => ApiEndpointVersions::until(v("b")),
        _ => ApiEndpointVersions::from_until(v("a"), v("b")).expect("ordered"),
    }
}

fn make_endpoint(_r: &mut StdRng, inst: &Inst, e: &Value) -> ApiEndpoint<()> {
    let id = e["id"].as_u64().unwrap();
    // the concrete parameter types of an endpoint are a function of the vector
    // and the endpoint, not of how often it has been rebuilt
    let mut er = rng(inst.salt, id);
    let r = &mut er;
    let method: http::Method = jstr(&e["m"]).parse().unwrap();
    let mut ep = ApiEndpoint::new(
        format!("e{}", id),
        base_handler,
        method,
        "application/json",
        &tpl_path(inst, e),
        range(inst, &e["r"]),
    );
    ep.visible = e["vis"].as_bool().unwrap_or(true);
    for t in jarr(&e["tags"]) {
        ep.tags.push(inst.tag[&jstr(&t)].clone());
    }
    // Where the tag policy does not care (the configurations that are about routing and documents), every
    // endpoint also carries a few ad hoc tags from a family whose members differ only in case: the
    // document's tag list must come out the same whatever order a hash set hands them over in.
    if inst.free_tags {
        for t in ["disks", "Disks", "DISKS", "instances"] {
            if r.gen_bool(0.4) {
                ep.tags.push(t.to_string());
            }
        }
    }
    let mut params = vec![];
    for (n, c) in jobj(&e["pty"]) {
        params.push(param(r, true, &jstr(&c), &inst.var[&n]));
    }
    for (n, c) in jobj(&e["qty"]) {
        params.push(param(r, false, &jstr(&c), &inst.var[&n]));
    }
    params.shuffle(r);
    ep.parameters = params;
    ep
}

fn new_api(inst: &Inst, vec: &Value) -> ApiDescription<()> {
    let policy = match jstr(&vec["tagpolicy"]).as_str() {
        "atleastone" => EndpointTagPolicy::AtLeastOne,
        "exactlyone" => EndpointTagPolicy::ExactlyOne,
        _ => EndpointTagPolicy::Any,
    };
    let mut tags = std::collections::HashMap::new();
    for t in jarr(&vec["knowntags"]) {
        tags.insert(inst.tag[&jstr(&t)].clone(), TagDetails::default());
    }
    ApiDescription::new().tag_config(TagConfig {
        allow_other_tags: vec["allowother"].as_bool().unwrap_or(true),
        policy,
        tags,
    })
}

/// Register one endpoint; classify the outcome.
fn try_register(
    api: &mut ApiDescription<()>,
    ep: ApiEndpoint<()>,
) -> &'static str {
    let r = catch(std::panic::AssertUnwindSafe(|| api.register(ep)));
    match r {
        Ok(Ok(())) => "ok",
        Ok(Err(_)) => "err",
        Err(_) => "panic",
    }
}

fn build(
    r: &mut StdRng,
    inst: &Inst,
    vec: &Value,
    regs: &[Value],
) -> Result<ApiDescription<()>, String> {
    let mut api = new_api(inst, vec);
    for e in regs {
        let ep = make_endpoint(r, inst, e);
        let out = try_register(&mut api, ep);
        if out != "ok" {
            return Err(format!("registration of e{} gave {}", e["id"], out));
        }
    }
    Ok(api)
}

fn all_paths(alpha: &[String], maxlen: usize) -> Vec<Vec<String>> {
    let mut out: Vec<Vec<String>> = vec![vec![]];
    let mut frontier: Vec<Vec<String>> = vec![vec![]];
    for _ in 0..maxlen {
        let mut next = vec![];
        for p in &frontier {
            for a in alpha {
                let mut q = p.clone();
                q.push(a.clone());
                next.push(q);
            }
        }
        out.extend(next.iter().cloned());
        frontier = next;
    }
    out
}

fn concrete_path(r: &mut StdRng, inst: &Inst, p: &[String], plain: bool) -> String {
    let mut s = String::new();
    for seg in p {
        s.push('/');
        if !plain {
            while r.gen_bool(0.15) {
                s.push('/');
            }
        }
        let c = &inst.lit[seg];
        if plain {
            s.push_str(&pct_encode_plain(c));
        } else {
            s.push_str(&pct_encode_segment(r, c));
        }
    }
    if p.is_empty() || (!plain && r.gen_bool(0.2)) {
        s.push('/');
    }
    s
}

/// Table of lookups over the whole universe: key -> outcome JSON
type Table = BTreeMap<(String, Vec<String>, u64), Value>;

fn real_table<C: dropshot::ServerContext>(
    r: &mut StdRng,
    inst: &Inst,
    api: ApiDescription<C>,
    methods: &[String],
    paths: &[Vec<String>],
    vers: &[u64],
    plain: bool,
) -> Table {
    let router = api.into_router();
    let rev_var: BTreeMap<String, String> =
        inst.var.iter().map(|(k, v)| (v.clone(), k.clone())).collect();
    let rev_lit: BTreeMap<String, String> =
        inst.lit.iter().map(|(k, v)| (v.clone(), k.clone())).collect();
    let unlit = |s: &String| rev_lit.get(s).cloned().unwrap_or_else(|| format!("?{}", s));
    let mut t = Table::new();
    for m in methods {
        let method: http::Method = m.parse().unwrap();
        for p in paths {
            for &v in vers {
                let cp = concrete_path(r, inst, p, plain);
                let sv = if v == 0 { None } else { Some(inst.vers[&v].to_semver()) };
                let res = catch(std::panic::AssertUnwindSafe(|| {
                    router.lookup_route(&method, cp.as_str().into(), sv.as_ref())
                }));
                let out = match res {
                    Err(msg) => json!({"k": "panic", "msg": msg}),
                    Ok(Ok(l)) => {
                        let raw = dropshot::verif::variables_json(&l.endpoint.variables);
                        let mut vars = serde_json::Map::new();
                        for (k, val) in jobj(&raw) {
                            let name = rev_var.get(&k).cloned().unwrap_or_else(|| format!("?{}", k));
                            let jv = if let Some(s) = val.get("s") {
                                json!({"s": unlit(&jstr(s))})
                            } else {
                                json!({"c": jarr(&val["c"]).iter().map(|x| unlit(&jstr(x))).collect::<Vec<_>>()})
                            };
                            vars.insert(name, jv);
                        }
                        json!({"k": "ok", "e": l.endpoint.operation_id, "vars": vars})
                    }
                    Ok(Err(e)) => {
                        let code = e.status_code.as_u16();
                        let mut allow: Vec<String> = vec![];
                        if let Some(h) = e.headers.as_deref() {
                            for v in h.get_all(http::header::ALLOW) {
                                allow.push(v.to_str().unwrap_or("?").to_string());
                            }
                        }
                        allow.sort();
                        json!({"k": code.to_string(), "allow": allow})
                    }
                };
                t.insert((m.clone(), p.clone(), v), out);
            }
        }
    }
    t
}

fn doc_ops(doc: &Value) -> BTreeSet<(String, String, String)> {
    let mut s = BTreeSet::new();
    if let Some(paths) = doc["paths"].as_object() {
        for (p, item) in paths {
            if let Some(ops) = item.as_object() {
                for (m, op) in ops {
                    if let Some(id) = op.get("operationId").and_then(|x| x.as_str()) {
                        s.insert((p.clone(), m.to_uppercase(), id.to_string()));
                    }
                }
            }
        }
    }
    s
}

fn main() {
    quiet_panics();
    let seed = seed_from_env();
    let plain = std::env::var("VERIF_PLAIN").is_ok();
    let stdin = std::io::stdin();
    let stdout = std::io::stdout();
    let mut out = stdout.lock();
    let mut n: u64 = 0;
    for line in stdin.lock().lines() {
        let line = line.unwrap();
        if line.trim().is_empty() {
            continue;
        }
        n += 1;
        let vec: Value = serde_json::from_str(&line).expect("vector json");
        let mut r = rng(seed, n);
        let res = replay(&mut r, &vec, plain);
        writeln!(out, "{}", res).unwrap();
    }
}

fn replay(r: &mut StdRng, vec: &Value, plain: bool) -> Value {
    let mut mism: Vec<Value> = vec![];
    let alpha: Vec<String> = jarr(&vec["alpha"]).iter().map(jstr).collect();
    let methods: Vec<String> = jarr(&vec["methods"]).iter().map(jstr).collect();
    let vers: Vec<u64> = jarr(&vec["vers"]).iter().map(|v| v.as_u64().unwrap()).collect();
    let maxlen = vec["maxlen"].as_u64().unwrap() as usize;
    let regs = jarr(&vec["regs"]);
    let nexts = jarr(&vec["next"]);

    // ---- collect the symbolic tokens and instantiate them -------------------
    let mut lits: BTreeSet<String> = alpha.iter().cloned().collect();
    let mut varnames: BTreeSet<String> = BTreeSet::new();
    let mut tags: BTreeSet<String> = jarr(&vec["knowntags"]).iter().map(jstr).collect();
    let mut maxv: u64 = vers.iter().cloned().max().unwrap_or(0);
    let all_eps: Vec<Value> =
        regs.iter().cloned().chain(nexts.iter().map(|x| x["e"].clone())).collect();
    for e in &all_eps {
        for s in jarr(&e["tpl"]) {
            if jstr(&s["k"]) == "lit" {
                lits.insert(jstr(&s["s"]));
            } else {
                varnames.insert(jstr(&s["s"]));
            }
        }
        for (k, _) in jobj(&e["pty"]) {
            varnames.insert(k);
        }
        for (k, _) in jobj(&e["qty"]) {
            varnames.insert(k);
        }
        for t in jarr(&e["tags"]) {
            tags.insert(jstr(&t));
        }
        for k in ["a", "b"] {
            if let Some(x) = e["r"].get(k).and_then(|x| x.as_u64()) {
                maxv = maxv.max(x);
            }
        }
    }
    let lits: Vec<String> = lits.into_iter().collect();
    let varnames: Vec<String> = varnames.into_iter().collect();
    let tags: Vec<String> = tags.into_iter().collect();
    let chain = version_chain(r, maxv as usize + 1);
    let inst = Inst {
        lit: instantiate(r, &lits, plain, random_literal, &[]),
        var: instantiate(r, &varnames, plain, random_varname, &[]),
        tag: instantiate(r, &tags, plain, |r| format!("tag{}", r.gen_range(0..1000)), &[]),
        vers: (1..=maxv).map(|i| (i, chain[i as usize].clone())).collect(),
        salt: r.gen(),
        free_tags: jstr(&vec["tagpolicy"]) == "any" && vec["allowother"].as_bool().unwrap_or(true)
            && jarr(&vec["knowntags"]).is_empty() && all_eps.iter().all(|e| jarr(&e["tags"]).is_empty()),
    };
    let inst_json = json!({
        "lit": inst.lit, "var": inst.var,
        "vers": inst.vers.iter().map(|(k, v)| (k.to_string(), v.to_string())).collect::<BTreeMap<_, _>>(),
    });

    // ---- 1. accepted registrations in TLC's order --------------------------
    let api = match build(r, &inst, vec, &regs) {
        Ok(a) => a,
        Err(msg) => {
            mism.push(json!({"prop": "C02", "what": "accepted-by-model-rejected-by-code", "detail": msg}));
            return json!({"ok": false, "mismatches": mism, "inst": inst_json});
        }
    };

    // ---- 2. candidate next registrations ------------------------------------
    let mut cur: Option<ApiDescription<()>> = None;
    let mut ncand = 0;
    for c in &nexts {
        ncand += 1;
        let want = jstr(&c["out"]);
        let mut a = match cur.take() {
            Some(a) => a,
            None => build(r, &inst, vec, &regs).expect("rebuild"),
        };
        let ep = make_endpoint(r, &inst, &c["e"]);
        let got = try_register(&mut a, ep);
        let want_ok = want == "ok";
        let got_ok = got == "ok";
        if want_ok != got_ok {
            mism.push(json!({"prop": "C02", "what": "registration-outcome",
                "e": c["e"], "path": tpl_path(&inst, &c["e"]), "want": want, "got": got}));
        }
        if got == "err" && want == "err" {
            cur = Some(a); // Err leaves the description unchanged (checked by reuse)
        }
    }

    // ---- 3. documents -------------------------------------------------------
    let doc_of = |api: &ApiDescription<()>, v: u64| -> Result<(Value, Vec<u8>), String> {
        let sv = if v == 0 { semver::Version::new(1, 0, 0) } else { inst.vers[&v].to_semver() };
        catch(std::panic::AssertUnwindSafe(|| {
            let d = api.openapi("t", sv);
            let j = d.json().expect("json");
            let mut bytes = vec![];
            d.write(&mut bytes).expect("write");
            (j, bytes)
        }))
    };
    let mut doc_bytes: BTreeMap<u64, Vec<u8>> = BTreeMap::new();
    for d in jarr(&vec["docs"]) {
        let v = d["v"].as_u64().unwrap();
        let want: BTreeSet<(String, String, String)> = jarr(&d["ops"])
            .iter()
            .map(|o| {
                (
                    concretize_printed(&inst, &jstr(&o["path"])),
                    jstr(&o["m"]),
                    format!("e{}", o["id"]),
                )
            })
            .collect();
        match doc_of(&api, v) {
            Err(msg) => {
                mism.push(json!({"prop": "C06", "what": "openapi-panicked", "v": v, "detail": msg}))
            }
            Ok((j, bytes)) => {
                let got = doc_ops(&j);
                if got != want {
                    mism.push(json!({"prop": "C06", "what": "operation-set", "v": v,
                        "want": want, "got": got}));
                }
                let mut refs = vec![];
                collect_refs(&j, &mut refs);
                for rf in refs {
                    if resolve_ref(&j, &rf).is_none() {
                        mism.push(json!({"prop": "C06", "what": "dangling-ref", "v": v, "ref": rf}));
                    }
                }
                if let Ok((_, b2)) = doc_of(&api, v) {
                    if b2 != bytes {
                        mism.push(json!({"prop": "C06", "what": "not-reproducible", "v": v}));
                    }
                }
                doc_bytes.insert(v, bytes);
            }
        }
    }

    // ---- 4. the lookup table -------------------------------------------------
    let paths = all_paths(&alpha, maxlen);
    let mut want_table: BTreeMap<(String, Vec<String>, u64), Value> = BTreeMap::new();
    for row in jarr(&vec["table"]) {
        let p: Vec<String> = jarr(&row["p"]).iter().map(jstr).collect();
        want_table.insert((jstr(&row["m"]), p, row["v"].as_u64().unwrap()), row["r"].clone());
    }
    let got_table = real_table(r, &inst, api, &methods, &paths, &vers, plain);
    compare_tables(&want_table, &got_table, &mut mism, "model-order");

    // ---- 5. every other registration order ----------------------------------
    let mut perms: Vec<Vec<Value>> = vec![];
    permutations(&regs, &mut perms);
    perms.retain(|p| p != &regs);
    perms.shuffle(r);
    perms.truncate(5);
    for p in perms {
        let order: Vec<String> = p.iter().map(|e| format!("e{}", e["id"])).collect();
        match build(r, &inst, vec, &p) {
            Err(msg) => mism.push(json!({"prop": "C02", "what": "order-dependent-acceptance",
                "order": order, "detail": msg})),
            Ok(api2) => {
                for (v, b) in &doc_bytes {
                    if let Ok((_, b2)) = doc_of(&api2, *v) {
                        if &b2 != b {
                            mism.push(json!({"prop": "C06", "what": "order-dependent-document",
                                "v": v, "order": order}));
                        }
                    }
                }
                let t2 = real_table(r, &inst, api2, &methods, &paths, &vers, plain);
                compare_tables(&want_table, &t2, &mut mism, &format!("order {:?}", order));
            }
        }
    }

    json!({"ok": mism.is_empty(), "mismatches": mism, "inst": inst_json,
           "lookups": got_table.len(), "candidates": ncand, "regs": regs.len()})
}

fn concretize_printed(inst: &Inst, printed: &str) -> String {
    // printed path from the model: "/a/{x}/b" over symbolic names
    if printed == "/" {
        return "/".to_string();
    }
    let segs: Vec<String> = printed[1..]
        .split('/')
        .map(|s| {
            if s.starts_with('{') {
                format!("{{{}}}", inst.var[&s[1..s.len() - 1].to_string()])
            } else {
                inst.lit[s].clone()
            }
        })
        .collect();
    format!("/{}", segs.join("/"))
}

fn compare_tables(
    want: &BTreeMap<(String, Vec<String>, u64), Value>,
    got: &Table,
    mism: &mut Vec<Value>,
    ctx: &str,
) {
    for (key, g) in got {
        let w = want.get(key).cloned().unwrap_or_else(|| json!({"k": "404"}));
        let wk = jstr(&w["k"]);
        let gk = jstr(&g["k"]);
        let req = json!({"m": key.0, "p": key.1, "v": key.2, "ctx": ctx});
        if wk == "ok" {
            let same_e = gk == "ok" && jstr(&g["e"]) == format!("e{}", w["e"]);
            if !same_e {
                mism.push(json!({"prop": "C01", "what": "dispatch", "req": req, "want": w, "got": g}));
                continue;
            }
            let wv = jobj(&w["vars"]);
            let gv = jobj(&g["vars"]);
            if wv != gv {
                mism.push(json!({"prop": "C01", "what": "variables", "req": req, "want": w, "got": g}));
            }
        } else if gk == "ok" {
            mism.push(json!({"prop": "C01", "what": "phantom-dispatch", "req": req, "want": w, "got": g}));
        } else if wk != gk {
            mism.push(json!({"prop": "C04", "what": "status", "req": req, "want": w, "got": g}));
        } else if wk == "405" {
            let mut wa: Vec<String> = jarr(&w["allow"]).iter().map(jstr).collect();
            wa.sort();
            let ga: Vec<String> = jarr(&g["allow"]).iter().map(jstr).collect();
            if wa != ga {
                mism.push(json!({"prop": "C04", "what": "allow", "req": req, "want": w, "got": g}));
            }
        }
    }
}

fn permutations(items: &[Value], out: &mut Vec<Vec<Value>>) {
    fn rec(cur: &mut Vec<Value>, rest: &mut Vec<Value>, out: &mut Vec<Vec<Value>>) {
        if rest.is_empty() {
            out.push(cur.clone());
            return;
        }
        for i in 0..rest.len() {
            let x = rest.remove(i);
            cur.push(x.clone());
            rec(cur, rest, out);
            cur.pop();
            rest.insert(i, x);
        }
    }
    if items.len() <= 4 {
        rec(&mut vec![], &mut items.to_vec(), out);
    } else {
        out.push(items.iter().rev().cloned().collect());
    }
}
