//! (T) Driver for Pagination.tla (C14, C15).
//!
//! * complete scans of an in-memory sorted collection through a live paginated
//!   endpoint with the real constants (max 10000, default 100): one `page`
//!   event per fetched page;
//! * every (token class x limit class x scan-parameter class) case of the
//!   specification's class table, instantiated with concrete values, sent to
//!   the live endpoint and to `serde_urlencoded::from_str::<PaginationParams>`;
//! * token issue / accept symmetry around the 512-byte bound and byte-level
//!   mutations of issued tokens.
//!
//! usage: drive_pagination <quick|thorough> <cases.json> <out.ndjson>

use base64::Engine;
use dropshot::endpoint;
use dropshot::ApiDescription;
use dropshot::ConfigDropshot;
use dropshot::HttpError;
use dropshot::HttpResponseOk;
use dropshot::PaginationParams;
use dropshot::Query;
use dropshot::RequestContext;
use dropshot::ResultsPage;
use dropshot::ServerBuilder;
use dropshot::WhichPage;
use rand::rngs::StdRng;
use rand::Rng;
use schemars::JsonSchema;
use serde::Deserialize;
use serde::Serialize;
use serde_json::json;
use serde_json::Value;
use std::sync::atomic::AtomicU32;
use std::sync::atomic::AtomicUsize;
use std::sync::atomic::Ordering;
use std::sync::Arc;
use std::time::Duration;
use verif_harness::httpc;
use verif_harness::*;

fn emit(ev: &str, v: Value) {
    dropshot::verif::emit(ev, v);
}

struct Ctx {
    n: AtomicU32,
    pad: AtomicUsize,
}

#[derive(Deserialize, Serialize, JsonSchema, Clone, Copy, Debug, PartialEq)]
#[serde(rename_all = "lowercase")]
enum Order {
    Asc,
    Desc,
}

#[derive(Deserialize, Serialize, JsonSchema, Clone, Debug)]
struct Scan {
    order: Option<Order>,
    /// an extra, typed scan parameter (so that a malformed value is possible)
    min: Option<u32>,
}

#[derive(Deserialize, Serialize, JsonSchema, Clone, Debug, PartialEq)]
struct Sel {
    order: Order,
    last: u32,
    pad: String,
    /// a 128-bit key beside the marker (addresses and ids kept as u128 are common selectors); for two
    /// items in three it lies beyond 64 bits
    #[serde(default)]
    big: u128,
}

fn big_of(v: u32) -> u128 {
    ((v % 3) as u128) * (1u128 << 64) + ((v % 3) as u128) * 12345678901234567890u128 + v as u128
}

/// A selector as it goes into an event (serde_json's Value cannot hold integers beyond 64 bits).
fn sel_json(s: &Sel) -> serde_json::Value {
    json!({"order": format!("{:?}", s.order).to_lowercase(), "last": s.last, "pad": s.pad, "big": s.big.to_string()})
}

#[derive(Serialize, JsonSchema, Clone, Debug)]
struct Item {
    v: u32,
}

/// A per-item marker with the kinds of text real selectors carry (names, punctuation, non-ASCII): the bytes of
/// a token depend on it, the scan must not.
fn label(v: u32) -> &'static str {
    ["", "dave?", "é", "日本", ">>", "~x~", "a?b>c", "ÿþ", "x/y+z", "??>>~~"][(v % 10) as usize]
}

#[endpoint { method = GET, path = "/items" }]
async fn ep_items_handler(
    rqctx: RequestContext<Arc<Ctx>>,
    q: Query<PaginationParams<Scan, Sel>>,
) -> Result<HttpResponseOk<ResultsPage<Item>>, HttpError> {
    let pag = q.into_inner();
    let limit = rqctx.page_limit(&pag)?.get();
    let ctx = rqctx.context();
    let n = ctx.n.load(Ordering::SeqCst);
    let pad = "p".repeat(ctx.pad.load(Ordering::SeqCst));
    let nonce = rqctx
        .request
        .headers()
        .get("x-verif-nonce")
        .and_then(|v| v.to_str().ok())
        .unwrap_or("")
        .to_string();
    let (which, order, after) = match &pag.page {
        WhichPage::First(scan) => ("first", scan.order.unwrap_or(Order::Asc), None),
        WhichPage::Next(sel) => ("next", sel.order, Some(sel.last)),
    };
    emit(
        "handler_page",
        json!({"n": nonce, "which": which, "efflimit": limit,
               "order": format!("{:?}", order).to_lowercase(),
               "after": after.map(|x| x as i64).unwrap_or(-1),
               "sel": match &pag.page { WhichPage::Next(s) => sel_json(s), _ => json!({}) }}),
    );
    let items: Vec<Item> = match order {
        Order::Asc => {
            let start = after.map(|a| a + 1).unwrap_or(1);
            (start..=n).take(limit as usize).map(|v| Item { v }).collect()
        }
        Order::Desc => {
            let start = after.map(|a| a.saturating_sub(1)).unwrap_or(n);
            (1..=start).rev().take(limit as usize).map(|v| Item { v }).collect()
        }
    };
    let scan = Scan { order: Some(order), min: None };
    Ok(HttpResponseOk(ResultsPage::new(items, &scan, |item: &Item, s: &Scan| Sel {
        order: s.order.unwrap(),
        last: item.v,
        big: big_of(item.v),
        pad: format!("{}{}", label(item.v), pad),
    })?))
}

async fn get(addr: std::net::SocketAddr, target: &str, nonce: &str) -> httpc::Resp {
    let req = httpc::build_request("GET", target, &[("x-verif-nonce".to_string(), nonce.to_string())], None);
    httpc::oneshot(addr, &req, false, Duration::from_secs(20)).await.unwrap_or_default()
}

fn b64(s: &[u8]) -> String {
    base64::engine::general_purpose::URL_SAFE.encode(s)
}

/// The harness's own classification of a token string.
fn classify(tok: &str) -> (&'static str, Option<Sel>) {
    if tok.len() > 512 {
        return ("too_long", None);
    }
    let Ok(bytes) = base64::engine::general_purpose::URL_SAFE.decode(tok.as_bytes()) else {
        return ("bad_base64", None);
    };
    let Ok(v) = serde_json::from_slice::<Value>(&bytes) else {
        return ("bad_json", None);
    };
    let Some(obj) = v.as_object() else { return ("wrong_shape", None) };
    match obj.get("v") {
        Some(Value::String(s)) if s == "v1" => {}
        Some(Value::String(_)) => return ("wrong_version", None),
        _ => return ("wrong_shape", None),
    }
    // the selector is parsed from the bytes themselves (a detour through serde_json::Value would turn
    // integers beyond 64 bits into floats); duplicate keys and the like are refused by the same parse
    if !obj.contains_key("page_start") {
        return ("wrong_shape", None);
    }
    match serde_json::from_slice::<StrictTok>(&bytes) {
        Ok(t) => ("valid", Some(t.page_start)),
        Err(_) => ("wrong_shape", None),
    }
}
#[derive(Deserialize)]
#[allow(dead_code)]
struct StrictTok {
    v: String,
    page_start: Sel,
}

fn random_pad(r: &mut StdRng, len: usize) -> String {
    let pool = ['a', 'Z', '0', ' ', '"', '\\', 'é', '日', '😀', '\n', '/', '+', '=', '&', '%'];
    (0..len).map(|_| pool[r.gen_range(0..pool.len())]).collect()
}

fn pct(s: &str) -> String {
    pct_encode_plain(s)
}

/// A token the server itself issued goes back either percent-encoded (what URL libraries do) or exactly as it
/// was received (what dropshot's own client and most hand-written ones do): both must work.
fn issued_token_in_query(r: &mut StdRng, t: &str) -> String {
    if r.gen_bool(0.5) { pct(t) } else { t.to_string() }
}

fn main() {
    let args: Vec<String> = std::env::args().collect();
    let thorough = args[1] == "thorough";
    let cases: Value = serde_json::from_str(&std::fs::read_to_string(&args[2]).unwrap()).unwrap();
    let out = args[3].clone();
    quiet_panics();
    dropshot::verif::install_memory_sink();
    verif_harness::campaign_budget(&out);
    httpc::stop_early_into(&out);
    let seed = seed_from_env();
    let mut r = rng(seed, 77);
    let rt = tokio::runtime::Builder::new_multi_thread().worker_threads(2).enable_all().build().unwrap();
    rt.block_on(async {
        let ctx = Arc::new(Ctx { n: AtomicU32::new(0), pad: AtomicUsize::new(0) });
        let mut api = ApiDescription::new();
        api.register(ep_items_handler).unwrap();
        let log = slog::Logger::root(slog::Discard, slog::o!());
        let config = ConfigDropshot { bind_address: "127.0.0.1:0".parse().unwrap(), ..Default::default() };
        let server = ServerBuilder::new(api, ctx.clone(), log).config(config).start().expect("server");
        let addr = server.local_addr();
        let mut nonce_ctr = 0u64;
        let mut nonce = || {
            nonce_ctr += 1;
            format!("p{}", nonce_ctr)
        };

        // ------------------------------------------------------------------
        // 1. complete scans (C15)
        // ------------------------------------------------------------------
        let big = if thorough { 25000 } else { 12000 };
        let sizes: Vec<u32> = vec![0, 1, 2, 99, 100, 101, 199, 200, 201, 9999, 10000, 10001, big];
        let limits: Vec<u64> = vec![0, 1, 2, 7, 99, 100, 101, 9999, 10000, 10001, u32::MAX as u64];
        // (size, limit, selector padding): the last group has selectors too long for a token
        let mut scans: Vec<(u32, u64, usize)> = vec![];
        for &n in &sizes {
            for &lim in &limits {
                scans.push((n, lim, usize::MAX));
            }
        }
        for n in [0u32, 1, 150] {
            for lim in [0u64, 1, 200] {
                scans.push((n, lim, 450));
            }
        }
        {
            for &(n, lim, padspec) in &scans {
                // scans of many tiny pages are capped (quick) to keep the trace small
                let pages_needed = if lim == 0 { n as u64 / 100 } else { n as u64 / lim.min(10000) };
                if pages_needed > if thorough { 3000 } else { 250 } {
                    continue;
                }
                for order in ["asc", "desc"] {
                    ctx.n.store(n, Ordering::SeqCst);
                    let pad = if padspec == usize::MAX { r.gen_range(0..20) } else { padspec };
                    ctx.pad.store(pad, Ordering::SeqCst);
                    // TLC integers are 32-bit: any limit above the server maximum is equivalent
                    emit("reset", json!({"kind": "scan", "n": n, "lim": lim.min(i32::MAX as u64), "order": order,
                        "big": pad >= 400,
                        "max": 10000, "def": 100}));
                    let mut token: Option<String> = None;
                    let mut fetched = 0u64;
                    loop {
                        let mut target = String::from("/items?");
                        match &token {
                            None => target.push_str(&format!("order={}", order)),
                            // the token alone selects the page; a contradictory order is added on purpose
                            Some(t) => target.push_str(&format!("page_token={}&order={}", issued_token_in_query(&mut r, t),
                                if order == "asc" { "desc" } else { "asc" })),
                        }
                        if lim != 0 {
                            target.push_str(&format!("&limit={}", lim));
                        }
                        let resp = get(addr, &target, &nonce()).await;
                        fetched += 1;
                        let body: Value = serde_json::from_slice(&resp.body).unwrap_or(json!({}));
                        let items: Vec<u64> = body["items"].as_array().map(|a| {
                            a.iter().map(|x| x["v"].as_u64().unwrap_or(0)).collect()
                        }).unwrap_or_default();
                        // ranks in scan order
                        let ranks: Vec<u64> = items.iter().map(|v| if order == "asc" { *v } else { n as u64 - *v + 1 }).collect();
                        let contig = ranks.windows(2).all(|w| w[1] == w[0] + 1);
                        token = body["next_page"].as_str().map(|s| s.to_string());
                        emit("page", json!({"status": resp.status, "count": ranks.len(),
                            "first": ranks.first().cloned().unwrap_or(0), "last": ranks.last().cloned().unwrap_or(0),
                            "contig": contig, "token": token.is_some()}));
                        if token.is_none() || resp.status != 200 {
                            break;
                        }
                        if fetched > n as u64 + 5 {
                            emit("scan_runaway", json!({"fetched": fetched}));
                            break;
                        }
                    }
                    emit("scan_end", json!({"fetched": fetched}));
                }
            }
        }

        // ------------------------------------------------------------------
        // 2. the class table (C14): live endpoint and direct deserialisation
        // ------------------------------------------------------------------
        ctx.n.store(500, Ordering::SeqCst);
        ctx.pad.store(3, Ordering::SeqCst);
        let reps = if thorough { 12 } else { 3 };
        for case in jarr(&cases["cases"]) {
            let (tc, lc, oc) = (jstr(&case["tc"]), jstr(&case["lc"]), jstr(&case["oc"]));
            for _ in 0..reps {
                // --- a token of the class ---
                let padlen = r.gen_range(0..12);
                let last = r.gen_range(1..500);
                let sel = Sel { order: if r.gen_bool(0.5) { Order::Asc } else { Order::Desc },
                    last, big: big_of(last), pad: random_pad(&mut r, padlen) };
                let issued = {
                    let page = ResultsPage::new(vec![Item { v: sel.last }], &Scan { order: Some(sel.order), min: None },
                        |_: &Item, _: &Scan| sel.clone());
                    page.ok().and_then(|p| p.next_page)
                };
                let token: Option<String> = match tc.as_str() {
                    "none" => None,
                    "issued" => issued.clone(),
                    "valid_other" => Some(b64(format!("{{ \"page_start\" : {}, \"v\":\"v1\" }}",
                        serde_json::to_string(&sel).unwrap()).as_bytes())),
                    "too_long" => Some(b64(format!("{{\"v\":\"v1\",\"page_start\":{}}}",
                        serde_json::to_string(&Sel { pad: "x".repeat(r.gen_range(400..900)), ..sel.clone() }).unwrap()).as_bytes())),
                    "bad_base64" => Some(["!!!!", "abc$", "YWJj*", "é", "a"][r.gen_range(0..5)].to_string()),
                    "bad_json" => Some(b64([&b"{\"v\":\"v1\",\"page_start\":"[..], b"not json", b"", b"{", b"\xff\xfe"][r.gen_range(0..5)])),
                    "wrong_shape" => Some(b64([
                        "{\"v\":\"v1\"}", "{\"page_start\":{\"order\":\"asc\",\"last\":1,\"pad\":\"\"}}",
                        "{\"v\":\"v1\",\"page_start\":{\"order\":\"asc\",\"last\":\"one\",\"pad\":\"\"}}",
                        "{\"v\":\"v1\",\"page_start\":{\"order\":\"sideways\",\"last\":1,\"pad\":\"\"}}",
                        "[1,2,3]", "{\"v\":1,\"page_start\":{\"order\":\"asc\",\"last\":1,\"pad\":\"\"}}", "null",
                        "{\"v\":\"v1\",\"page_start\":{\"order\":\"asc\",\"last\":-1,\"pad\":\"\"}}",
                    ][r.gen_range(0..8)].as_bytes())),
                    _ => Some(b64(format!("{{\"v\":\"{}\",\"page_start\":{}}}", ["v2", "V1", "v0", ""][r.gen_range(0..4)],
                        serde_json::to_string(&sel).unwrap()).as_bytes())),
                };
                if tc == "issued" && token.is_none() {
                    continue;
                }
                // --- a limit of the class ---
                let (limit_str, limit_val): (Option<String>, i64) = match lc.as_str() {
                    "absent" => (None, 0),
                    "zero" => (Some("0".into()), 0),
                    "negative" => (Some(format!("-{}", r.gen_range(1..100))), 0),
                    "non_numeric" => (Some(["abc", "1.5", "", "1e3", "١٢"][r.gen_range(0..5)].to_string()), 0),
                    "in_range" => { let v = r.gen_range(1..10000); (Some(v.to_string()), v) }
                    "at_max" => (Some("10000".into()), 10000),
                    _ => { let v = [10001u64, 65536, u32::MAX as u64][r.gen_range(0..3)]; (Some(v.to_string()), 0) }
                };
                // --- scan parameters of the class ---
                let other: Option<String> = match oc.as_str() {
                    "absent" => None,
                    "valid" => Some(["order=asc", "order=desc&min=3", "min=7"][r.gen_range(0..3)].to_string()),
                    _ => Some(["order=sideways", "min=abc", "min=-1", "order=asc&min=1.5"][r.gen_range(0..4)].to_string()),
                };
                let mut parts: Vec<String> = vec![];
                if let Some(t) = &token {
                    parts.push(format!("page_token={}", if tc == "issued" { issued_token_in_query(&mut r, t) } else { pct(t) }));
                }
                if let Some(l) = &limit_str { parts.push(format!("limit={}", pct(l))); }
                if let Some(o) = &other { parts.push(o.clone()); }
                // random order of the query parameters
                for i in (1..parts.len()).rev() { let j = r.gen_range(0..=i); parts.swap(i, j); }
                let qs = parts.join("&");
                let want_sel = match tc.as_str() { "issued" | "valid_other" => Some(sel.clone()), _ => None };
                // direct deserialisation
                let direct = serde_urlencoded::from_str::<PaginationParams<Scan, Sel>>(&qs);
                let (dstatus, dwhich, dsel_eq) = match &direct {
                    Err(_) => (400, "", false),
                    Ok(p) => match &p.page {
                        WhichPage::First(_) => (200, "first", false),
                        WhichPage::Next(s) => (200, "next", Some(s) == want_sel.as_ref()),
                    },
                };
                emit("case", json!({"via": "api", "tc": tc, "lc": lc, "oc": oc, "qs": qs, "status": dstatus,
                    "which": dwhich, "sel_equal": dsel_eq, "efflimit": -1, "limit_val": limit_val, "entered": false}));
                // live endpoint
                let nn = nonce();
                emit("reset", json!({"kind": "case", "n": nn}));
                let resp = get(addr, &format!("/items?{}", qs), &nn).await;
                emit("case", json!({"via": "live", "tc": tc, "lc": lc, "oc": oc, "qs": qs, "status": resp.status,
                    "want_sel": want_sel.as_ref().map(sel_json).unwrap_or(json!({})), "nn": nn,
                    "limit_val": limit_val, "wellformed": resp.wellformed}));
            }
        }

        // ------------------------------------------------------------------
        // 3. issue / accept symmetry around the bound, and mutants (C14)
        // ------------------------------------------------------------------
        let nissue = if thorough { 3000 } else { 400 };
        let mut issued_tokens: Vec<(String, Sel)> = vec![];
        for i in 0..nissue {
            if i % 25 == 0 {
                emit("reset", json!({"kind": "case", "n": format!("issue{}", i)}));
            }
            // pads chosen so that encoded lengths straddle 512
            let padlen = if i % 3 == 0 { r.gen_range(300..340) } else { r.gen_range(0..420) };
            let last = r.gen_range(0..u32::MAX);
            let sel = Sel { order: Order::Desc, last, big: big_of(last),
                pad: if i % 2 == 0 { "q".repeat(padlen) } else { random_pad(&mut r, padlen / 3) } };
            let encoded_len = b64(format!("{{\"v\":\"v1\",\"page_start\":{}}}", serde_json::to_string(&sel).unwrap()).as_bytes()).len();
            let page = ResultsPage::new(vec![Item { v: 1 }], &Scan { order: None, min: None }, |_: &Item, _: &Scan| sel.clone());
            match page {
                Ok(p) if p.next_page.is_none() => {
                    // a non-empty page without a token: neither issued nor refused
                    emit("issue", json!({"len": 0, "enc": encoded_len, "out": "none", "roundtrip": false}));
                }
                Ok(p) => {
                    let tok = p.next_page.unwrap();
                    let back = serde_urlencoded::from_str::<PaginationParams<Scan, Sel>>(&format!("page_token={}", issued_token_in_query(&mut r, &tok)));
                    let roundtrip = matches!(&back, Ok(pp) if matches!(&pp.page, WhichPage::Next(s) if *s == sel));
                    emit("issue", json!({"len": tok.len(), "enc": encoded_len, "out": "token", "roundtrip": roundtrip}));
                    issued_tokens.push((tok, sel));
                }
                Err(e) => emit("issue", json!({"len": encoded_len, "enc": encoded_len, "out": "error",
                    "roundtrip": false, "status": e.status_code.as_u16()})),
            }
        }
        let nmut = if thorough { 20000 } else { 3000 };
        for mi in 0..nmut {
            if mi % 50 == 0 {
                emit("reset", json!({"kind": "case", "n": format!("mutant{}", mi)}));
            }
            let (tok, _sel) = &issued_tokens[r.gen_range(0..issued_tokens.len())];
            let mut b: Vec<u8> = tok.as_bytes().to_vec();
            match r.gen_range(0..8) {
                6 => {
                    // extra data after (or white space around) the JSON document
                    if let Ok(mut j) = base64::engine::general_purpose::URL_SAFE.decode(&b) {
                        let extra: &[u8] = [&b"}"[..], b"x", b" 1", b"[]", b" ", b"\n\t ", b"{\"v\":\"v1\"}", b",", b"\0"][r.gen_range(0..9)];
                        j.extend_from_slice(extra);
                        b = b64(&j).into_bytes();
                    }
                }
                7 => {
                    if let Ok(j) = base64::engine::general_purpose::URL_SAFE.decode(&b) {
                        let mut k = [&b" "[..], b"\n", b"x", b"\xef\xbb\xbf"][r.gen_range(0..4)].to_vec();
                        k.extend_from_slice(&j);
                        b = b64(&k).into_bytes();
                    }
                }
                0 => { let i = r.gen_range(0..b.len()); b[i] = b"ABCDabcd0189-_=+/"[r.gen_range(0..17)]; }
                1 => { let k = r.gen_range(1..b.len()); b.truncate(k); }
                2 => { b.push(b"Aa0="[r.gen_range(0..4)]); }
                3 => { let i = r.gen_range(0..b.len()); b.remove(i); }
                4 => {
                    // mutate the JSON inside and re-encode
                    if let Ok(mut j) = base64::engine::general_purpose::URL_SAFE.decode(&b) {
                        let i = r.gen_range(0..j.len());
                        j[i] = b"{}\":,vx19 "[r.gen_range(0..10)];
                        b = b64(&j).into_bytes();
                    }
                }
                _ => { let i = r.gen_range(0..b.len()); let j = r.gen_range(0..b.len()); b.swap(i, j); }
            }
            let Ok(mt) = String::from_utf8(b) else { continue };
            let (class, want) = classify(&mt);
            let back = serde_urlencoded::from_str::<PaginationParams<Scan, Sel>>(&format!("page_token={}", pct(&mt)));
            let (accepted, equal) = match &back {
                Ok(pp) => match &pp.page { WhichPage::Next(s) => (true, Some(s) == want.as_ref()), _ => (false, false) },
                Err(_) => (false, false),
            };
            emit("mutant", json!({"class": class, "accepted": accepted, "equal": equal, "len": mt.len()}));
        }
        // well-formed tokens of exactly chosen encoded lengths on both sides of the 512-byte bound (the bound is
        // on the token as sent, not on what it decodes to)
        emit("reset", json!({"kind": "case", "n": "bound"}));
        for target in [500usize, 504, 508, 512, 516, 520, 524, 560, 600, 640, 676, 680, 684, 688, 720, 1024] {
            for _ in 0..3 {
                let last = r.gen_range(1..1000);
                let base = Sel { order: Order::Asc, last, big: big_of(last), pad: String::new() };
                let base_json = format!("{{\"v\":\"v1\",\"page_start\":{}}}", serde_json::to_string(&base).unwrap());
                // encoded length is 4 * ceil(n / 3): pick the JSON length n = target / 4 * 3 (no padding)
                let n = target / 4 * 3;
                if n < base_json.len() {
                    continue;
                }
                let sel = Sel { pad: "k".repeat(n - base_json.len()), ..base };
                let tok = b64(format!("{{\"v\":\"v1\",\"page_start\":{}}}", serde_json::to_string(&sel).unwrap()).as_bytes());
                let (class, want) = classify(&tok);
                let back = serde_urlencoded::from_str::<PaginationParams<Scan, Sel>>(&format!("page_token={}", pct(&tok)));
                let (accepted, equal) = match &back {
                    Ok(pp) => match &pp.page { WhichPage::Next(s) => (true, Some(s) == want.as_ref()), _ => (false, false) },
                    Err(_) => (false, false),
                };
                emit("mutant", json!({"class": class, "accepted": accepted, "equal": equal, "len": tok.len(), "exact": target}));
            }
        }
        let _ = server.close().await;
    });
    let lines = dropshot::verif::take_memory();
    std::fs::write(&out, lines.join("\n") + "\n").unwrap();
    println!("{}", json!({"events": lines.len()}));
}
