//! (T) Driver for TraceVersioned.tla: a live server with the header-based
//! version policy and, per episode, a random route table on one path
//! (methods x version ranges over a semver chain).  Every header class x
//! version x method is sent; the recorded status, Allow values (wire bytes)
//! and answering operation are validated against Versions.tla / the table.
//!
//! usage: drive_versioned <episodes> <out.ndjson>

use dropshot::ApiDescription;
use dropshot::ApiEndpoint;
use dropshot::ApiEndpointVersions;
use dropshot::ClientSpecifiesVersionInHeader;
use dropshot::ConfigDropshot;
use dropshot::HttpError;
use dropshot::HttpResponseOk;
use dropshot::RequestContext;
use dropshot::ServerBuilder;
use dropshot::VersionPolicy;
use rand::Rng;
use serde_json::json;
use serde_json::Value;
use std::time::Duration;
use verif_harness::httpc;
use verif_harness::*;

fn emit(ev: &str, v: Value) {
    dropshot::verif::emit(ev, v);
}

/// The documented use of `DynamicVersionPolicy`: the header policy, except
/// that an absent header selects a default version.
#[derive(Debug)]
struct DefaultingPolicy {
    name: http::HeaderName,
    inner: ClientSpecifiesVersionInHeader,
    default: semver::Version,
}
impl dropshot::DynamicVersionPolicy for DefaultingPolicy {
    fn request_extract_version(
        &self,
        request: &http::Request<dropshot::Body>,
        log: &slog::Logger,
    ) -> Result<semver::Version, HttpError> {
        if request.headers().get(&self.name).is_none() {
            return Ok(self.default.clone());
        }
        self.inner.request_extract_version(request, log)
    }
}

async fn handler(rqctx: RequestContext<()>) -> Result<HttpResponseOk<String>, HttpError> {
    Ok(HttpResponseOk(rqctx.endpoint.operation_id.clone()))
}

fn main() {
    let args: Vec<String> = std::env::args().collect();
    let episodes: u64 = args[1].parse().unwrap();
    let out = args[2].clone();
    quiet_panics();
    dropshot::verif::install_memory_sink();
    verif_harness::campaign_budget(&out);
    httpc::stop_early_into(&out);
    let seed = seed_from_env();
    let rt = tokio::runtime::Builder::new_multi_thread().worker_threads(2).enable_all().build().unwrap();
    rt.block_on(async {
        for ep in 0..episodes {
            let mut r = rng(seed, ep);
            // grid 1..7, end-points on 2, 4, 6; a semver chain of 7 versions
            let chain = version_chain(&mut r, 7);
            let sv = |g: u64| chain[g as usize - 1].to_semver();
            let maxg: u64 = r.gen_range(3..=7);
            // version policy of this episode (Versions.tla: Policies)
            let pol = match r.gen_range(0..10) {
                0..=5 => "header",
                6 | 7 => "default",
                _ => "unversioned",
            };
            let dfltg: u64 = if pol == "default" { r.gen_range(1..=maxg) } else { 0 };
            // half of the unversioned episodes use tables an unversioned server may have
            let only_all = pol == "unversioned" && r.gen_bool(0.5);
            // a conflict-free table on path /v: per method a few disjoint ranges
            let methods = ["GET", "PUT", "DELETE", "POST"];
            let mut table: Vec<Value> = vec![];
            let mut api = ApiDescription::new();
            let mut opn = 0;
            for m in methods.iter().take(r.gen_range(1..=4)) {
                // partition choice: one of a few shapes
                let shapes: Vec<Vec<Value>> = vec![
                    vec![json!({"k": "all"})],
                    vec![json!({"k": "until", "b": 2}), json!({"k": "from", "a": 4})],
                    vec![json!({"k": "fu", "a": 2, "b": 4})],
                    vec![json!({"k": "until", "b": 4}), json!({"k": "fu", "a": 4, "b": 4}), json!({"k": "from", "a": 6})],
                    vec![json!({"k": "from", "a": 6})],
                    vec![json!({"k": "fu", "a": 2, "b": 2}), json!({"k": "fu", "a": 4, "b": 6})],
                ];
                let pick = if only_all { 0 } else { r.gen_range(0..shapes.len()) };
                for rg in &shapes[pick] {
                    opn += 1;
                    let op = format!("op{}", opn);
                    let versions = match jstr(&rg["k"]).as_str() {
                        "all" => ApiEndpointVersions::All,
                        "from" => ApiEndpointVersions::from(sv(rg["a"].as_u64().unwrap())),
                        "until" => ApiEndpointVersions::until(sv(rg["b"].as_u64().unwrap())),
                        _ => ApiEndpointVersions::from_until(sv(rg["a"].as_u64().unwrap()), sv(rg["b"].as_u64().unwrap())).unwrap(),
                    };
                    api.register(ApiEndpoint::new(op.clone(), handler, m.parse().unwrap(), "application/json", "/v", versions))
                        .expect("conflict-free table");
                    table.push(json!({"m": m, "r": rg, "op": op}));
                }
            }
            let log = slog::Logger::root(slog::Discard, slog::o!());
            let hname: http::HeaderName = "x-api-version".parse().unwrap();
            let policy = match pol {
                "header" => VersionPolicy::Dynamic(Box::new(ClientSpecifiesVersionInHeader::new(hname.clone(), sv(maxg)))),
                "default" => VersionPolicy::Dynamic(Box::new(DefaultingPolicy {
                    name: hname.clone(),
                    inner: ClientSpecifiesVersionInHeader::new(hname.clone(), sv(maxg)),
                    default: sv(dfltg),
                })),
                _ => VersionPolicy::Unversioned,
            };
            let started = ServerBuilder::new(api, (), log)
                .config(ConfigDropshot { bind_address: "127.0.0.1:0".parse().unwrap(), ..Default::default() })
                .version_policy(policy)
                .start();
            emit("reset", json!({"table": table, "max": maxg, "policy": pol, "dflt": dfltg, "built": started.is_ok(),
                "build_error": started.as_ref().err().map(|e| e.to_string()).unwrap_or_default(),
                "chain": chain.iter().map(|c| c.to_string()).collect::<Vec<_>>()}));
            let server = match started {
                Ok(s) => s,
                Err(_) => continue,
            };
            let addr = server.local_addr();
            let mut ctr = 0;
            for m in ["GET", "PUT", "DELETE", "POST", "PATCH"] {
                let mut cases: Vec<(&str, u64, Option<Vec<u8>>)> = vec![
                    ("missing", 0, None),
                    ("nonascii", 0, Some(b"1.0.0\xff".to_vec())),
                    ("nonascii", 0, Some("1.0.0-é".as_bytes().to_vec())),
                    ("unparsable", 0, Some(b"one.two".to_vec())),
                    ("unparsable", 0, Some(b"1.2".to_vec())),
                    ("unparsable", 0, Some(b"".to_vec())),
                    ("unparsable", 0, Some(b"v1.0.0".to_vec())),
                ];
                for g in 1..=7u64 {
                    cases.push(("ok", g, Some(chain[g as usize - 1].to_string().into_bytes())));
                }
                for (class, g, value) in cases {
                    ctr += 1;
                    let n = format!("v{}x{}", ep, ctr);
                    // one request in eight goes to a path nothing is registered on
                    let other = r.gen_range(0..8) == 0;
                    let target = if other { "/nope" } else { "/v" };
                    let mut req = format!("{} {} HTTP/1.1\r\nhost: x\r\nx-verif-nonce: {}\r\n", m, target, n).into_bytes();
                    if let Some(v) = &value {
                        req.extend_from_slice(b"x-api-version: ");
                        req.extend_from_slice(v);
                        req.extend_from_slice(b"\r\n");
                    }
                    req.extend_from_slice(b"content-length: 0\r\n\r\n");
                    let resp = httpc::oneshot(addr, &req, false, Duration::from_secs(10)).await.unwrap_or_default();
                    let op = if resp.status == 200 {
                        serde_json::from_slice::<String>(&resp.body).unwrap_or_default()
                    } else {
                        String::new()
                    };
                    // every Allow value, split at commas (wire bytes)
                    let allow: Vec<String> = resp
                        .headers_all("allow")
                        .iter()
                        .flat_map(|v| v.split(',').map(|x| x.trim().to_string()).collect::<Vec<_>>())
                        .filter(|x| !x.is_empty())
                        .collect();
                    emit("vreq", json!({"n": n, "m": m, "p": if other { "other" } else { "v" }, "class": class, "v": g, "status": resp.status,
                        "allow": allow, "op": op, "wellformed": resp.wellformed}));
                }
            }
            let _ = server.close().await;
        }
    });
    let lines = dropshot::verif::take_memory();
    std::fs::write(&out, lines.join("\n") + "\n").unwrap();
    println!("{}", json!({"events": lines.len()}));
}
