//! (R) Replay of PathNorm.tla vectors: every raw path TLC enumerated is turned
//! into a concrete request path (random choice among equivalent spellings)
//! and routed by the real `lookup_route` on two routers: one with a trailing
//! wildcard at the root (receives every normalised path) and one with
//! single-segment variables.  Expected: 400 exactly when the specification
//! says the path is refused, otherwise the exact decoded components.

use dropshot::ApiDescription;
use dropshot::ApiEndpoint;
use dropshot::ApiEndpointBodyContentType;
use dropshot::ApiEndpointParameter;
use dropshot::ApiEndpointParameterLocation;
use dropshot::ApiEndpointVersions;
use dropshot::HttpError;
use dropshot::HttpResponseOk;
use dropshot::Path;
use dropshot::RequestContext;
use dropshot::SharedExtractor;
use rand::rngs::StdRng;
use rand::Rng;
use schemars::JsonSchema;
use serde::Deserialize;
use serde_json::json;
use serde_json::Value;
use std::io::BufRead;
use std::io::Write;
use verif_harness::*;

async fn h(_rqctx: RequestContext<()>) -> Result<HttpResponseOk<()>, HttpError> {
    Ok(HttpResponseOk(()))
}

#[derive(Deserialize, JsonSchema)]
#[allow(dead_code)]
struct PS {
    f: String,
}
#[derive(Deserialize, JsonSchema)]
#[allow(dead_code)]
struct PA {
    f: Vec<String>,
}

fn ep(id: &str, path: &str, params: Vec<(&str, bool)>) -> ApiEndpoint<()> {
    let mut e = ApiEndpoint::new(
        id.to_string(),
        h,
        http::Method::GET,
        "application/json",
        path,
        ApiEndpointVersions::All,
    );
    e.parameters = params
        .into_iter()
        .map(|(name, arr)| {
            let mut md = if arr {
                <Path<PA> as SharedExtractor>::metadata(ApiEndpointBodyContentType::Json)
            } else {
                <Path<PS> as SharedExtractor>::metadata(ApiEndpointBodyContentType::Json)
            };
            let p = md.parameters.pop().unwrap();
            ApiEndpointParameter::new_named(
                &ApiEndpointParameterLocation::Path,
                name.to_string(),
                None,
                true,
                p.schema,
                vec![],
            )
        })
        .collect();
    e
}

/// (wire text, decoded text or None if not UTF-8)
fn token(r: &mut StdRng, t: &str) -> (String, Option<String>) {
    let pick = |r: &mut StdRng, xs: &[&str]| xs[r.gen_range(0..xs.len())].to_string();
    match t {
        "a" => {
            let c = pick(r, &["a", "b", "Z", "0", "9", "_", "-", "~", "x", "etc", "passwd", "+", "!", "*", "'", "(", ")", ";", ":", "@", "&", "=", "$", ","]);
            (c.clone(), Some(c))
        }
        "dot" => (".".into(), Some(".".into())),
        "slash" => ("/".into(), Some("/".into())),
        "p2e" => ("%2e".into(), Some(".".into())),
        "p2E" => ("%2E".into(), Some(".".into())),
        "p2f" => ("%2f".into(), Some("/".into())),
        "p2F" => ("%2F".into(), Some("/".into())),
        "p25" => ("%25".into(), Some("%".into())),
        "two_e" => {
            let c = pick(r, &["2e", "2E", "2f", "2F", "25"]);
            (c.clone(), Some(c))
        }
        "p41" => {
            let (w, d) = [("%41", "A"), ("%7a", "z"), ("%7A", "z"), ("%20", " "), ("%3f", "?"), ("%23", "#"), ("%5C", "\\"), ("%00", "\0")]
                [r.gen_range(0..8)];
            (w.into(), Some(d.into()))
        }
        "utf8" => {
            let (w, d) = [("%c3%a9", "é"), ("%C3%A9", "é"), ("%e6%97%a5", "日"), ("%F0%9F%98%80", "😀"), ("%c3%A9", "é")]
                [r.gen_range(0..5)];
            (w.into(), Some(d.into()))
        }
        "bad" => (pick(r, &["%ff", "%FE", "%c0%af", "%ed%a0%80", "%f8"]), None),
        "pzz" => {
            let c = pick(r, &["%zz", "%ZZ", "%g0", "%-1", "%%"]);
            // not an escape: percent-decoding leaves it as it is.  ("%%" is
            // only used when nothing follows that could complete an escape;
            // the caller checks.)
            (c.clone(), Some(c))
        }
        other => panic!("unknown token {}", other),
    }
}

fn main() {
    quiet_panics();
    let seed = seed_from_env();
    let mut api_a = ApiDescription::new();
    api_a.register(ep("wild", "/{p:.*}", vec![("p", true)])).unwrap();
    let router_a = api_a.into_router();
    let mut api_b = ApiDescription::new();
    api_b.register(ep("one", "/{v}", vec![("v", false)])).unwrap();
    api_b.register(ep("two", "/{v}/{w}", vec![("v", false), ("w", false)])).unwrap();
    let router_b = api_b.into_router();

    let stdin = std::io::stdin();
    let stdout = std::io::stdout();
    let mut out = stdout.lock();
    let mut n = 0u64;
    for line in stdin.lock().lines() {
        let line = line.unwrap();
        if line.trim().is_empty() {
            continue;
        }
        n += 1;
        let vec: Value = serde_json::from_str(&line).unwrap();
        let mut r = rng(seed, n);
        let raw: Vec<String> = jarr(&vec["raw"]).iter().map(jstr).collect();
        let want_ok = vec["ok"].as_bool().unwrap();
        // concrete spelling, token by token
        let mut wire = String::from("/");
        let mut pieces: Vec<Option<String>> = vec![]; // decoded pieces (None = invalid)
        let mut cur: Option<String> = Some(String::new());
        let mut cur_nonempty = false;
        for (i, t) in raw.iter().enumerate() {
            let (mut w, mut d) = token(&mut r, t);
            if w == "%%" && i + 1 < raw.len() {
                w = "%zz".into();
                d = Some("%zz".into());
            }
            if t == "slash" {
                wire.push('/');
                if cur_nonempty {
                    pieces.push(cur.take());
                }
                cur = Some(String::new());
                cur_nonempty = false;
                continue;
            }
            wire.push_str(&w);
            cur_nonempty = true;
            cur = match (cur, d) {
                (Some(mut c), Some(d)) => {
                    c.push_str(&d);
                    Some(c)
                }
                _ => None,
            };
        }
        if cur_nonempty {
            pieces.push(cur.take());
        }
        // the harness's concrete pieces must agree in number with the model's
        let model_segs = jarr(&vec["segs"]);
        let mut mism: Vec<Value> = vec![];
        if want_ok && model_segs.len() != pieces.len() {
            mism.push(json!({"prop": "C03", "what": "harness-model-piece-count", "wire": wire}));
        }
        let expect: Vec<String> = pieces.iter().map(|p| p.clone().unwrap_or_default()).collect();

        // router A: wildcard at the root
        let ra = catch(std::panic::AssertUnwindSafe(|| {
            router_a.lookup_route(&http::Method::GET, wire.as_str().into(), None)
        }));
        match ra {
            Err(msg) => mism.push(json!({"prop": "C03", "what": "panic", "wire": wire, "msg": msg})),
            Ok(Ok(l)) => {
                let vars = dropshot::verif::variables_json(&l.endpoint.variables);
                let got: Vec<String> = jarr(&vars["p"]["c"]).iter().map(jstr).collect();
                if !want_ok {
                    mism.push(json!({"prop": "C03", "what": "unsafe-path-routed", "wire": wire,
                        "handler_would_see": got}));
                } else if got != expect {
                    mism.push(json!({"prop": "C03", "what": "components", "wire": wire,
                        "want": expect, "got": got}));
                }
                if got.iter().any(|s| s.is_empty() || s == "." || s == "..") {
                    mism.push(json!({"prop": "C03", "what": "unsafe-segment-delivered", "wire": wire,
                        "got": got}));
                }
            }
            Ok(Err(e)) => {
                let code = e.status_code.as_u16();
                if want_ok {
                    mism.push(json!({"prop": "C03", "what": "safe-path-refused", "wire": wire,
                        "status": code, "want": expect}));
                } else if code != 400 {
                    mism.push(json!({"prop": "C03", "what": "wrong-status", "wire": wire, "status": code}));
                }
            }
        }
        // router B: one or two single-segment variables
        let rb = catch(std::panic::AssertUnwindSafe(|| {
            router_b.lookup_route(&http::Method::GET, wire.as_str().into(), None)
        }));
        match rb {
            Err(msg) => mism.push(json!({"prop": "C03", "what": "panic", "wire": wire, "msg": msg})),
            Ok(Ok(l)) => {
                let vars = dropshot::verif::variables_json(&l.endpoint.variables);
                let mut got = vec![];
                for k in ["v", "w"] {
                    if let Some(s) = vars.get(k).and_then(|x| x.get("s")) {
                        got.push(jstr(s));
                    }
                }
                if !want_ok {
                    mism.push(json!({"prop": "C03", "what": "unsafe-path-routed", "wire": wire,
                        "handler_would_see": got}));
                } else if got != expect {
                    mism.push(json!({"prop": "C03", "what": "segment-variables", "wire": wire,
                        "want": expect, "got": got}));
                }
            }
            Ok(Err(e)) => {
                let code = e.status_code.as_u16();
                if !want_ok {
                    if code != 400 {
                        mism.push(json!({"prop": "C03", "what": "wrong-status", "wire": wire, "status": code}));
                    }
                } else {
                    let want_code = if expect.len() == 1 || expect.len() == 2 { 0 } else { 404 };
                    if code != want_code {
                        mism.push(json!({"prop": "C03", "what": "safe-path-refused", "wire": wire,
                            "status": code, "want": expect}));
                    }
                }
            }
        }
        writeln!(out, "{}", json!({"ok": mism.is_empty(), "mismatches": mism, "wire": wire})).unwrap();
    }
}
