//! (R) Replay of WsHandshake.tla cases against a live `#[channel]` endpoint
//! over raw TCP: status line, `Sec-WebSocket-Accept` against the harness's
//! own SHA-1/base64 digest, then random payloads in both directions compared
//! byte for byte; on a refusal a following byte must not be echoed.
//!
//! stdin: one JSON case per line; stdout: one JSON result per line.

use base64::Engine;
use dropshot::channel;
use dropshot::ApiDescription;
use dropshot::ConfigDropshot;
use dropshot::RequestContext;
use dropshot::ServerBuilder;
use dropshot::WebsocketConnection;
use rand::rngs::StdRng;
use rand::Rng;
use serde_json::json;
use serde_json::Value;
use std::io::BufRead;
use std::io::Write;
use std::time::Duration;
use tokio::io::AsyncReadExt;
use tokio::io::AsyncWriteExt;
use verif_harness::*;

#[channel { protocol = WEBSOCKETS, path = "/ws" }]
async fn ep_ws_echo(_rqctx: RequestContext<()>, upgraded: WebsocketConnection) -> dropshot::WebsocketChannelResult {
    // raw byte echo: bytes must flow unmodified in both directions
    let mut io = upgraded.into_inner();
    let mut buf = [0u8; 4096];
    loop {
        let n = io.read(&mut buf).await?;
        if n == 0 {
            break;
        }
        io.write_all(&buf[..n]).await?;
        io.flush().await?;
    }
    Ok(())
}

/// SHA-1 (FIPS 180-1), written out here so that the check does not share the
/// digest implementation with the code under test.
fn sha1(data: &[u8]) -> [u8; 20] {
    let mut h: [u32; 5] = [0x67452301, 0xEFCDAB89, 0x98BADCFE, 0x10325476, 0xC3D2E1F0];
    let mut msg = data.to_vec();
    let bitlen = (data.len() as u64) * 8;
    msg.push(0x80);
    while msg.len() % 64 != 56 {
        msg.push(0);
    }
    msg.extend_from_slice(&bitlen.to_be_bytes());
    for chunk in msg.chunks(64) {
        let mut w = [0u32; 80];
        for i in 0..16 {
            w[i] = u32::from_be_bytes([chunk[4 * i], chunk[4 * i + 1], chunk[4 * i + 2], chunk[4 * i + 3]]);
        }
        for i in 16..80 {
            w[i] = (w[i - 3] ^ w[i - 8] ^ w[i - 14] ^ w[i - 16]).rotate_left(1);
        }
        let (mut a, mut b, mut c, mut d, mut e) = (h[0], h[1], h[2], h[3], h[4]);
        for i in 0..80 {
            let (f, k) = match i {
                0..=19 => ((b & c) | (!b & d), 0x5A827999u32),
                20..=39 => (b ^ c ^ d, 0x6ED9EBA1),
                40..=59 => ((b & c) | (b & d) | (c & d), 0x8F1BBCDC),
                _ => (b ^ c ^ d, 0xCA62C1D6),
            };
            let t = a.rotate_left(5).wrapping_add(f).wrapping_add(e).wrapping_add(k).wrapping_add(w[i]);
            e = d;
            d = c;
            c = b.rotate_left(30);
            b = a;
            a = t;
        }
        h[0] = h[0].wrapping_add(a);
        h[1] = h[1].wrapping_add(b);
        h[2] = h[2].wrapping_add(c);
        h[3] = h[3].wrapping_add(d);
        h[4] = h[4].wrapping_add(e);
    }
    let mut out = [0u8; 20];
    for i in 0..5 {
        out[4 * i..4 * i + 4].copy_from_slice(&h[i].to_be_bytes());
    }
    out
}

fn accept_for(key: &str) -> String {
    let mut v = key.as_bytes().to_vec();
    v.extend_from_slice(b"258EAFA5-E914-47DA-95CA-C5AB0DC85B11");
    base64::engine::general_purpose::STANDARD.encode(sha1(&v))
}

fn sep_text(sep: &str) -> &'static str {
    match sep {
        "comma" => ",",
        "comma_sp" => ", ",
        "sp_comma" => " ,",
        "comma_tab" => ",\t",
        _ => " ,  ",
    }
}

fn header_lines(name: &str, lines: &[Value], sep: &str) -> Vec<(String, String)> {
    lines
        .iter()
        .map(|line| {
            let elems: Vec<String> = jarr(line).iter().map(|e| jstr(&e["sp"])).collect();
            (name.to_string(), elems.join(sep_text(sep)))
        })
        .collect()
}

async fn run_case(addr: std::net::SocketAddr, r: &mut StdRng, case: &Value) -> Vec<Value> {
    let req = &case["req"];
    let out = &case["out"];
    let mut mism = vec![];
    let sep = jstr(&req["sep"]);
    let mut headers: Vec<(String, String)> = vec![];
    headers.extend(header_lines("Connection", &jarr(&req["conn"]), &sep));
    headers.extend(header_lines("Upgrade", &jarr(&req["upg"]), &sep));
    match jstr(&req["ver"]).as_str() {
        "13" => headers.push(("Sec-WebSocket-Version".into(), "13".into())),
        "other" => headers.push(("Sec-WebSocket-Version".into(), ["12", "8", "14", "1", "113", "13, 8", "13 8", "013", "13.0", "13,13"][r.gen_range(0..10)].into())),
        _ => {}
    }
    let key_class = jstr(&req["key"]);
    let key: Option<String> = if key_class == "present" {
        let raw: Vec<u8> = (0..16).map(|_| r.gen()).collect();
        Some(match r.gen_range(0..10) {
            0 => "dGhlIHNhbXBsZSBub25jZQ==".to_string(), // the RFC's example
            1 => "not-base64-at-all".to_string(),
            _ => base64::engine::general_purpose::STANDARD.encode(raw),
        })
    } else if key_class == "odd" {
        // a field value with an interior separator: the digest covers all of it
        let raw: Vec<u8> = (0..16).map(|_| r.gen()).collect();
        let b = base64::engine::general_purpose::STANDARD.encode(raw);
        let at = r.gen_range(1..b.len() - 1);
        let sep = [" ", ",", "\t", ", ", " ,", "  "][r.gen_range(0..6)];
        Some(format!("{}{}{}", &b[..at], sep, &b[at..]))
    } else {
        None
    };
    if let Some(k) = &key {
        headers.push(("Sec-WebSocket-Key".into(), k.clone()));
    }
    // random header order
    for i in (1..headers.len()).rev() {
        let j = r.gen_range(0..=i);
        headers.swap(i, j);
    }
    let reqb = verif_harness::httpc::build_request("GET", "/ws", &headers, None);
    let ctx = json!({"headers": headers, "expected": out});
    let Ok(mut s) = verif_harness::httpc::connect(addr).await else {
        mism.push(json!({"prop": "C20", "what": "connect-failed", "case": ctx}));
        return mism;
    };
    let _ = s.write_all(&reqb).await;
    // read the response head
    let mut buf: Vec<u8> = vec![];
    let deadline = tokio::time::Instant::now() + Duration::from_secs(10);
    let head_end = loop {
        if let Some(p) = buf.windows(4).position(|w| w == b"\r\n\r\n") {
            break Some(p);
        }
        let mut tmp = [0u8; 2048];
        match tokio::time::timeout_at(deadline, s.read(&mut tmp)).await {
            Ok(Ok(0)) | Err(_) | Ok(Err(_)) => break None,
            Ok(Ok(n)) => buf.extend_from_slice(&tmp[..n]),
        }
    };
    let Some(head_end) = head_end else {
        mism.push(json!({"prop": "C20", "what": "no-response", "case": ctx}));
        return mism;
    };
    let head = String::from_utf8_lossy(&buf[..head_end]).to_string();
    let rest = buf[head_end + 4..].to_vec();
    let status: u16 = head.split(' ').nth(1).and_then(|x| x.parse().ok()).unwrap_or(0);
    let hdr = |name: &str| -> Option<String> {
        head.split("\r\n").skip(1).find_map(|l| {
            let (k, v) = l.split_once(':')?;
            if k.eq_ignore_ascii_case(name) { Some(v.trim().to_string()) } else { None }
        })
    };
    let want_upgrade = out["upgraded"].as_bool().unwrap();
    if want_upgrade {
        if status != 101 {
            mism.push(json!({"prop": "C20", "what": "handshake-refused", "status": status, "case": ctx}));
            return mism;
        }
        let want_accept = accept_for(key.as_ref().unwrap());
        if hdr("sec-websocket-accept").as_deref() != Some(want_accept.as_str()) {
            mism.push(json!({"prop": "C20", "what": "accept-digest", "got": hdr("sec-websocket-accept"),
                "want": want_accept, "case": ctx}));
        }
        // (The response's own Connection / Upgrade headers are not part of the property as stated; a request
        // that also asks for "close" gets "connection: close" from hyper.  Not asserted.)
        // bytes flow unmodified in both directions
        let mut echoed: Vec<u8> = rest;
        let mut sent: Vec<u8> = vec![];
        for _ in 0..r.gen_range(1..4) {
            let payload: Vec<u8> = (0..r.gen_range(1..3000)).map(|_| r.gen()).collect();
            sent.extend_from_slice(&payload);
            if s.write_all(&payload).await.is_err() {
                break;
            }
        }
        let deadline = tokio::time::Instant::now() + Duration::from_secs(10);
        while echoed.len() < sent.len() {
            let mut tmp = [0u8; 4096];
            match tokio::time::timeout_at(deadline, s.read(&mut tmp)).await {
                Ok(Ok(0)) | Err(_) | Ok(Err(_)) => break,
                Ok(Ok(n)) => echoed.extend_from_slice(&tmp[..n]),
            }
        }
        if echoed != sent {
            mism.push(json!({"prop": "C20", "what": "payload", "sent": sent.len(), "echoed": echoed.len(), "case": ctx}));
        }
    } else {
        if !(400..500).contains(&status) {
            mism.push(json!({"prop": "C20", "what": "bad-handshake-not-4xx", "status": status, "case": ctx}));
        }
        if status == 101 || hdr("sec-websocket-accept").is_some() {
            mism.push(json!({"prop": "C20", "what": "upgraded-without-handshake", "case": ctx}));
        }
        // not upgraded: a stray byte is not echoed back
        let _ = s.write_all(b"\x81\x01Z").await;
        let mut tmp = [0u8; 64];
        // skip the rest of the error body, then expect no echo of our bytes
        let mut tail: Vec<u8> = rest;
        loop {
            match tokio::time::timeout(Duration::from_millis(30), s.read(&mut tmp)).await {
                Ok(Ok(0)) | Err(_) | Ok(Err(_)) => break,
                Ok(Ok(n)) => tail.extend_from_slice(&tmp[..n]),
            }
        }
        if tail.windows(3).any(|w| w == b"\x81\x01Z") {
            mism.push(json!({"prop": "C20", "what": "echo-without-upgrade", "case": ctx}));
        }
    }
    mism
}

fn main() {
    quiet_panics();
    let seed = seed_from_env();
    let rt = tokio::runtime::Builder::new_multi_thread().worker_threads(4).enable_all().build().unwrap();
    let stdin = std::io::stdin();
    let lines: Vec<String> = stdin.lock().lines().map(|l| l.unwrap()).filter(|l| !l.trim().is_empty()).collect();
    let results: Vec<Value> = rt.block_on(async {
        let mut api = ApiDescription::new();
        api.register(ep_ws_echo).unwrap();
        let log = slog::Logger::root(slog::Discard, slog::o!());
        let config = ConfigDropshot { bind_address: "127.0.0.1:0".parse().unwrap(), ..Default::default() };
        let server = ServerBuilder::new(api, (), log).config(config).start().expect("server");
        let addr = server.local_addr();
        let mut out = vec![];
        let mut idx = 0u64;
        for batch in lines.chunks(24) {
            let mut tasks = vec![];
            for line in batch {
                idx += 1;
                let case: Value = serde_json::from_str(line).unwrap();
                let mut r = rng(seed, idx);
                tasks.push(tokio::spawn(async move {
                    let mism = run_case(addr, &mut r, &case).await;
                    json!({"ok": mism.is_empty(), "mismatches": mism})
                }));
            }
            for t in tasks {
                out.push(t.await.unwrap_or(json!({"ok": false, "mismatches": [{"prop": "C20", "what": "driver-task-failed"}]})));
            }
        }
        let _ = server.close().await;
        out
    });
    let stdout = std::io::stdout();
    let mut o = stdout.lock();
    for r in results {
        writeln!(o, "{}", r).unwrap();
    }
}
