//! (T) Wire-level driver for BodyLimit.tla (C11): every body extractor x
//! limit configuration (server default, smaller and larger per-endpoint
//! override) x body size around and beyond the limit x framing
//! (content-length, chunked with random chunk boundaries, chunk extensions,
//! trailers).  One request at a time; each request is one episode of the
//! trace (reset event carries what was sent and the expected effective cap).
//!
//! usage: drive_body <rounds> <out.ndjson>

use dropshot::endpoint;
use dropshot::ApiDescription;
use dropshot::ConfigDropshot;
use dropshot::HttpError;
use dropshot::HttpResponseOk;
use dropshot::MultipartBody;
use dropshot::Path;
use dropshot::RequestContext;
use dropshot::ServerBuilder;
use dropshot::StreamingBody;
use dropshot::TypedBody;
use dropshot::UntypedBody;
use futures::StreamExt;
use rand::rngs::StdRng;
use rand::Rng;
use schemars::JsonSchema;
use serde::Deserialize;
use serde::Serialize;
use serde_json::json;
use std::time::Duration;
use tokio::io::AsyncWriteExt;
use verif_harness::httpc;
use verif_harness::*;

const DEFAULT_CAP: usize = 1024;
const SMALL_CAP: usize = 64;
const BIG_CAP: usize = 5000;

fn emit(ev: &str, v: serde_json::Value) {
    dropshot::verif::emit(ev, v);
}

#[derive(Deserialize, JsonSchema)]
struct NPath {
    n: String,
}
#[derive(Serialize, JsonSchema)]
struct Seen {
    seen: usize,
    sum: u64,
}
#[derive(Deserialize, JsonSchema)]
struct Blob {
    data: String,
}

fn checksum(b: &[u8]) -> u64 {
    b.iter().fold(0u64, |a, x| a.wrapping_mul(31).wrapping_add(*x as u64))
}

fn observed(id: &str, n: &str, seen: usize, sum: u64, complete: bool) {
    emit("handler_body", json!({"id": id, "n": n, "seen": seen, "sum": sum.to_string(), "complete": complete}));
}

async fn do_untyped(rqctx: RequestContext<()>, path: Path<NPath>, body: UntypedBody) -> Result<HttpResponseOk<Seen>, HttpError> {
    let n = path.into_inner().n;
    let b = body.as_bytes();
    observed(&rqctx.request_id, &n, b.len(), checksum(b), true);
    Ok(HttpResponseOk(Seen { seen: b.len(), sum: checksum(b) }))
}
async fn do_typed(rqctx: RequestContext<()>, path: Path<NPath>, body: TypedBody<Blob>) -> Result<HttpResponseOk<Seen>, HttpError> {
    let n = path.into_inner().n;
    let d = body.into_inner().data;
    // the handler sees the decoded value; the wire length is data + 11 bytes of JSON syntax
    observed(&rqctx.request_id, &n, d.len() + 11, checksum(d.as_bytes()), true);
    Ok(HttpResponseOk(Seen { seen: d.len() + 11, sum: checksum(d.as_bytes()) }))
}
async fn do_stream(rqctx: RequestContext<()>, path: Path<NPath>, body: StreamingBody) -> Result<HttpResponseOk<Seen>, HttpError> {
    let n = path.into_inner().n;
    let s = body.into_stream();
    tokio::pin!(s);
    let mut seen = 0usize;
    let mut all: Vec<u8> = vec![];
    while let Some(item) = s.next().await {
        match item {
            Ok(chunk) => {
                seen += chunk.len();
                all.extend_from_slice(&chunk);
                emit("handler_chunk", json!({"n": n, "len": chunk.len(), "seen": seen}));
            }
            Err(e) => {
                observed(&rqctx.request_id, &n, seen, checksum(&all), false);
                return Err(e);
            }
        }
    }
    observed(&rqctx.request_id, &n, seen, checksum(&all), true);
    Ok(HttpResponseOk(Seen { seen, sum: checksum(&all) }))
}
async fn do_multipart(rqctx: RequestContext<()>, path: Path<NPath>, mut body: MultipartBody) -> Result<HttpResponseOk<Seen>, HttpError> {
    let n = path.into_inner().n;
    let mut seen = 0usize;
    let mut all: Vec<u8> = vec![];
    loop {
        match body.content.next_field().await {
            Ok(Some(mut field)) => loop {
                match field.chunk().await {
                    Ok(Some(c)) => {
                        seen += c.len();
                        all.extend_from_slice(&c);
                    }
                    Ok(None) => break,
                    Err(e) => {
                        observed(&rqctx.request_id, &n, seen, checksum(&all), false);
                        return Err(HttpError::for_bad_request(None, format!("multipart: {}", e)));
                    }
                }
            },
            Ok(None) => break,
            Err(e) => {
                observed(&rqctx.request_id, &n, seen, checksum(&all), false);
                return Err(HttpError::for_bad_request(None, format!("multipart: {}", e)));
            }
        }
    }
    observed(&rqctx.request_id, &n, seen, checksum(&all), true);
    Ok(HttpResponseOk(Seen { seen, sum: checksum(&all) }))
}

macro_rules! eps {
    ($name:ident, $path:literal, $f:ident, $bt:ty) => {
        #[endpoint { method = PUT, path = $path }]
        async fn $name(rqctx: RequestContext<()>, path: Path<NPath>, body: $bt) -> Result<HttpResponseOk<Seen>, HttpError> {
            $f(rqctx, path, body).await
        }
    };
    ($name:ident, $path:literal, $f:ident, $bt:ty, $cap:expr) => {
        #[endpoint { method = PUT, path = $path, request_body_max_bytes = $cap }]
        async fn $name(rqctx: RequestContext<()>, path: Path<NPath>, body: $bt) -> Result<HttpResponseOk<Seen>, HttpError> {
            $f(rqctx, path, body).await
        }
    };
}
eps!(ep_untyped_default, "/untyped/default/{n}", do_untyped, UntypedBody);
eps!(ep_untyped_small, "/untyped/small/{n}", do_untyped, UntypedBody, SMALL_CAP);
eps!(ep_untyped_big, "/untyped/big/{n}", do_untyped, UntypedBody, BIG_CAP);
eps!(ep_typed_default, "/typed/default/{n}", do_typed, TypedBody<Blob>);
eps!(ep_typed_small, "/typed/small/{n}", do_typed, TypedBody<Blob>, SMALL_CAP);
eps!(ep_typed_big, "/typed/big/{n}", do_typed, TypedBody<Blob>, BIG_CAP);
eps!(ep_stream_default, "/stream/default/{n}", do_stream, StreamingBody);
eps!(ep_stream_small, "/stream/small/{n}", do_stream, StreamingBody, SMALL_CAP);
eps!(ep_stream_big, "/stream/big/{n}", do_stream, StreamingBody, BIG_CAP);
eps!(ep_multipart_default, "/multipart/default/{n}", do_multipart, MultipartBody);
eps!(ep_multipart_small, "/multipart/small/{n}", do_multipart, MultipartBody, SMALL_CAP);

/// (wire body, content type, payload as the handler should see it)
fn make_body(r: &mut StdRng, kind: &str, total: usize) -> Option<(Vec<u8>, String, Vec<u8>)> {
    match kind {
        "typed" => {
            if total < 11 {
                return None;
            }
            let fill: String = (0..total - 11).map(|_| (b'a' + r.gen_range(0..26)) as char).collect();
            Some((format!("{{\"data\":\"{}\"}}", fill).into_bytes(), "application/json".to_string(), fill.into_bytes()))
        }
        "multipart" => {
            let head = "--XyZ\r\ncontent-disposition: form-data; name=\"f\"\r\n\r\n";
            let tail = "\r\n--XyZ--\r\n";
            let overhead = head.len() + tail.len();
            if total < overhead {
                return None;
            }
            let mut v = head.as_bytes().to_vec();
            let payload: Vec<u8> = (0..total - overhead).map(|_| b'a' + r.gen_range(0..26)).collect();
            v.extend_from_slice(&payload);
            v.extend_from_slice(tail.as_bytes());
            Some((v, "multipart/form-data; boundary=XyZ".to_string(), payload))
        }
        _ => {
            let v: Vec<u8> = (0..total).map(|_| r.gen::<u8>()).collect();
            Some((v.clone(), "application/octet-stream".to_string(), v))
        }
    }
}

fn main() {
    let args: Vec<String> = std::env::args().collect();
    let rounds: u64 = args[1].parse().unwrap();
    let out = args[2].clone();
    quiet_panics();
    dropshot::verif::install_memory_sink();
    verif_harness::campaign_budget(&out);
    httpc::stop_early_into(&out);
    let seed = seed_from_env();
    let rt = tokio::runtime::Builder::new_multi_thread().worker_threads(2).enable_all().build().unwrap();
    let mut nreq = 0u64;
    rt.block_on(async {
        let mut api = ApiDescription::new();
        api.register(ep_untyped_default).unwrap();
        api.register(ep_untyped_small).unwrap();
        api.register(ep_untyped_big).unwrap();
        api.register(ep_typed_default).unwrap();
        api.register(ep_typed_small).unwrap();
        api.register(ep_typed_big).unwrap();
        api.register(ep_stream_default).unwrap();
        api.register(ep_stream_small).unwrap();
        api.register(ep_stream_big).unwrap();
        api.register(ep_multipart_default).unwrap();
        api.register(ep_multipart_small).unwrap();
        let log = slog::Logger::root(slog::Discard, slog::o!());
        let config = ConfigDropshot {
            bind_address: "127.0.0.1:0".parse().unwrap(),
            default_request_body_max_bytes: DEFAULT_CAP,
            ..Default::default()
        };
        let server = ServerBuilder::new(api, (), log).config(config).start().expect("server");
        let addr = server.local_addr();
        for round in 0..rounds {
            let mut r = rng(seed, round);
            for kind in ["untyped", "typed", "stream", "multipart"] {
                for (lim, cap) in [("default", DEFAULT_CAP), ("small", SMALL_CAP), ("big", BIG_CAP)] {
                    if kind == "multipart" && lim == "big" {
                        continue;
                    }
                    let sizes = [0, 1, cap / 2, cap - 1, cap, cap + 1, cap + r.gen_range(2..50), 2 * cap,
                        if round % 4 == 0 { 64 * cap } else { 3 * cap }];
                    for total in sizes {
                        let Some((body, ctype, payload)) = make_body(&mut r, kind, total) else { continue };
                        // "length+chunked": a (small) Content-Length followed by Transfer-Encoding: chunked; the
                        // chunked framing governs (RFC 9112 6.3) and hyper keeps the Content-Length header in
                        // the map, so nothing may trust that header for the size of the body
                        for framing in ["length", "chunked", "chunked-ext-trailers", "length+chunked"] {
                            nreq += 1;
                            let n = format!("b{}", nreq);
                            let mut hdr = vec![
                                ("x-verif-nonce".to_string(), n.clone()),
                                ("content-type".to_string(), ctype.clone()),
                            ];
                            let wire_body = if framing == "length" {
                                body.clone()
                            } else {
                                if framing == "length+chunked" {
                                    hdr.push(("content-length".to_string(), r.gen_range(0..=body.len().min(cap)).to_string()));
                                }
                                hdr.push(("transfer-encoding".to_string(), "chunked".to_string()));
                                let mut sizes = vec![];
                                let mut left = body.len();
                                while left > 0 {
                                    let s = match r.gen_range(0..4) {
                                        0 => 1,
                                        1 => r.gen_range(1..=17),
                                        2 => r.gen_range(1..=cap.max(2)),
                                        _ => left,
                                    }
                                    .min(left);
                                    sizes.push(s);
                                    left -= s;
                                }
                                httpc::chunked_body(&body, &sizes, framing == "chunked-ext-trailers", framing == "chunked-ext-trailers")
                            };
                            let target = format!("/{}/{}/{}", kind, lim, n);
                            let mut req = httpc::build_request("PUT", &target, &hdr, None);
                            if framing == "length" {
                                // build_request without body adds no length; add it by hand
                                req.truncate(req.len() - 2);
                                req.extend_from_slice(format!("content-length: {}\r\n\r\n", wire_body.len()).as_bytes());
                            }
                            emit("reset", json!({"n": n, "kind": kind, "limit": lim, "cap": cap,
                                "default": DEFAULT_CAP, "total": body.len(), "framing": framing,
                                "expect_seen": if kind == "typed" { payload.len() + 11 } else { payload.len() },
                                "sum": checksum(&payload).to_string()}));
                            let mut s = httpc::connect(addr).await.expect("connect");
                            let _ = s.write_all(&req).await;
                            // write the body in a few pieces so that the server sees several frames
                            let mut pos = 0;
                            let mut write_failed = false;
                            while pos < wire_body.len() {
                                let step = match r.gen_range(0..3) {
                                    0 => wire_body.len() - pos,
                                    1 => r.gen_range(1..=64).min(wire_body.len() - pos),
                                    _ => r.gen_range(1..=4096).min(wire_body.len() - pos),
                                };
                                if s.write_all(&wire_body[pos..pos + step]).await.is_err() {
                                    write_failed = true;
                                    break;
                                }
                                pos += step;
                                if r.gen_bool(0.3) {
                                    tokio::time::sleep(Duration::from_micros(300)).await;
                                }
                            }
                            let mut rd = httpc::Reader::new();
                            let resp = rd.read_response(&mut s, false, Duration::from_secs(10)).await;
                            if resp.wellformed {
                                let v: serde_json::Value = serde_json::from_slice(&resp.body).unwrap_or(json!({}));
                                emit("client_recv", json!({"n": n, "status": resp.status,
                                    "seen": v.get("seen").and_then(|x| x.as_u64()).map(|x| x as i64).unwrap_or(-1),
                                    "sum": v.get("sum").map(|x| x.to_string()).unwrap_or_default(),
                                    "write_failed": write_failed}));
                            } else {
                                emit("client_noresp", json!({"n": n, "problem": resp.problem, "write_failed": write_failed}));
                            }
                        }
                    }
                }
            }
        }
        let _ = server.close().await;
    });
    let lines = dropshot::verif::take_memory();
    std::fs::write(&out, lines.join("\n") + "\n").unwrap();
    println!("{}", json!({"events": lines.len(), "requests": nreq}));
}
