//! (T) Driver for Hostile.tla (C18): faulty connections of every kind --
//! random bytes, a valid request truncated at *every* byte offset (FIN or
//! RST), byte-level mutations of a valid request, oversized heads, illegal
//! header values, broken chunking, short bodies, a panicking handler,
//! connections left half-open -- each followed by a health request on a
//! fresh connection.
//!
//! usage: drive_hostile <quick|thorough> <out.ndjson>

use dropshot::endpoint;
use dropshot::ApiDescription;
use dropshot::ConfigDropshot;
use dropshot::HttpError;
use dropshot::HttpResponseOk;
use dropshot::RequestContext;
use dropshot::ServerBuilder;
use dropshot::TypedBody;
use rand::rngs::StdRng;
use rand::Rng;
use schemars::JsonSchema;
use serde::Deserialize;
use serde_json::json;
use serde_json::Value;
use std::time::Duration;
use tokio::io::AsyncWriteExt;
use tokio::net::TcpStream;
use verif_harness::httpc;
use verif_harness::*;

fn emit(ev: &str, v: Value) {
    dropshot::verif::emit(ev, v);
}

#[derive(Deserialize, JsonSchema)]
struct Data {
    #[allow(dead_code)]
    name: String,
    #[allow(dead_code)]
    count: u32,
}

#[endpoint { method = GET, path = "/health" }]
async fn ep_health(_rqctx: RequestContext<()>) -> Result<HttpResponseOk<String>, HttpError> {
    Ok(HttpResponseOk("ok".to_string()))
}
#[endpoint { method = PUT, path = "/data" }]
async fn ep_data(_rqctx: RequestContext<()>, body: TypedBody<Data>) -> Result<HttpResponseOk<u32>, HttpError> {
    Ok(HttpResponseOk(body.into_inner().count))
}
#[endpoint { method = GET, path = "/panic" }]
async fn ep_panic(_rqctx: RequestContext<()>) -> Result<HttpResponseOk<String>, HttpError> {
    emit("handler_panic_on_purpose", json!({}));
    panic!("hostile driver: handler panics on purpose");
}

fn valid_request() -> Vec<u8> {
    httpc::build_request(
        "PUT",
        "/data?x=1",
        &[("content-type".to_string(), "application/json".to_string()), ("x-extra".to_string(), "abc".to_string())],
        Some(b"{\"name\": \"widget\", \"count\": 42}"),
    )
}

static OUT_PATH: std::sync::OnceLock<String> = std::sync::OnceLock::new();
static FAILED_IN_A_ROW: std::sync::atomic::AtomicU32 = std::sync::atomic::AtomicU32::new(0);

/// Three failed health checks in a row: the server is gone or wedged.  That is the finding; going on with
/// the campaign would only add a ten-second timeout per remaining fault.  Write what was recorded and stop.
fn stop_if_dead(ok: bool) {
    use std::sync::atomic::Ordering;
    if ok {
        FAILED_IN_A_ROW.store(0, Ordering::SeqCst);
        return;
    }
    if FAILED_IN_A_ROW.fetch_add(1, Ordering::SeqCst) + 1 >= 3 {
        emit("campaign_stopped", json!({"why": "three health checks in a row failed"}));
        let lines = dropshot::verif::take_memory();
        std::fs::write(OUT_PATH.get().expect("out path"), lines.join("\n") + "\n").unwrap();
        println!("{}", json!({"events": lines.len(), "stopped": true}));
        std::process::exit(0);
    }
}

async fn health(addr: std::net::SocketAddr) {
    let req = httpc::build_request("GET", "/health", &[], None);
    let ok = match httpc::oneshot(addr, &req, false, Duration::from_secs(10)).await {
        Ok(r) => {
            let ok = r.wellformed && r.status == 200 && r.body == b"\"ok\"";
            emit("health", json!({"ok": ok, "status": r.status, "problem": r.problem}));
            ok
        }
        Err(e) => {
            emit("health", json!({"ok": false, "status": 0, "problem": e}));
            false
        }
    };
    stop_if_dead(ok);
}

/// Send `bytes` on a fresh connection, end it (`fin`, `rst`) or leave it open (`hold`), report what came back.
async fn fault(addr: std::net::SocketAddr, f: u64, kind: &str, bytes: &[u8], end: &str, detail: Value) -> Option<TcpStream> {
    emit("fault", json!({"f": f, "kind": kind, "len": bytes.len(), "end": end, "detail": detail.clone()}));
    let Ok(mut s) = httpc::connect(addr).await else {
        emit("fault_closed", json!({"f": f, "why": "connect failed"}));
        return None;
    };
    // write in a couple of pieces
    let mid = bytes.len() / 2;
    let _ = s.write_all(&bytes[..mid]).await;
    let _ = s.write_all(&bytes[mid..]).await;
    match end {
        "rst" => {
            let _ = s.set_linger(Some(Duration::from_secs(0)));
            drop(s);
            emit("fault_closed", json!({"f": f, "why": "client reset"}));
            return None;
        }
        "hold" => return Some(s),
        _ => {
            let _ = s.shutdown().await; // FIN: nothing more will come
        }
    }
    if detail.get("tls").and_then(|x| x.as_bool()) == Some(true) {
        // on a TLS port whatever comes back before the handshake completes is a TLS record
        // (an alert), not an HTTP response: just wait for the server to be done with it
        use tokio::io::AsyncReadExt;
        let mut sink = vec![0u8; 4096];
        let mut got = 0usize;
        loop {
            match tokio::time::timeout(Duration::from_secs(5), s.read(&mut sink)).await {
                Ok(Ok(0)) | Ok(Err(_)) | Err(_) => break,
                Ok(Ok(k)) => got += k,
            }
        }
        emit("fault_closed", json!({"f": f, "why": format!("tls: {} bytes of TLS records returned", got)}));
        return None;
    }
    let mut rd = httpc::Reader::new();
    let resp = rd.read_response(&mut s, false, Duration::from_secs(5)).await;
    if resp.empty || (resp.status == 0 && resp.headers.is_empty() && rd.buf.is_empty() && resp.problem.starts_with("eof")) {
        emit("fault_closed", json!({"f": f, "why": resp.problem}));
    } else if resp.problem == "timeout" && resp.status == 0 {
        emit("fault_closed", json!({"f": f, "why": "no answer within 5 s"}));
    } else {
        emit("fault_resp", json!({"f": f, "wellformed": resp.wellformed, "status": resp.status, "problem": resp.problem}));
        emit("fault_closed", json!({"f": f, "why": "done"}));
    }
    None
}

fn main() {
    let args: Vec<String> = std::env::args().collect();
    let thorough = args[1] == "thorough";
    let out = args[2].clone();
    let _ = OUT_PATH.set(out.clone());
    quiet_panics();
    dropshot::verif::install_memory_sink();
    verif_harness::campaign_budget(&out);
    let seed = seed_from_env();
    let rt = tokio::runtime::Builder::new_multi_thread().worker_threads(4).enable_all().build().unwrap();
    rt.block_on(async {
        let mut api = ApiDescription::new();
        api.register(ep_health).unwrap();
        api.register(ep_data).unwrap();
        api.register(ep_panic).unwrap();
        let log = slog::Logger::root(slog::Discard, slog::o!());
        let config = ConfigDropshot { bind_address: "127.0.0.1:0".parse().unwrap(), ..Default::default() };
        let server = ServerBuilder::new(api, (), log).config(config).start().expect("server");
        let addr = server.local_addr();
        let mut r: StdRng = rng(seed, 18);
        let mut f = 0u64;
        emit("reset", json!({"kind": "hostile"}));
        health(addr).await;
        let valid = valid_request();

        // 1. a valid request truncated at every byte offset, ended by FIN and (thorough: every; quick: every 3rd) RST
        for cut in 0..valid.len() {
            f += 1;
            fault(addr, f, "truncated", &valid[..cut], "fin", json!({"cut": cut})).await;
            health(addr).await;
            if thorough || cut % 3 == 0 {
                f += 1;
                fault(addr, f, "truncated_reset", &valid[..cut], "rst", json!({"cut": cut})).await;
                health(addr).await;
            }
        }
        // 1b. bursts of connections that are reset as soon as they are established: faster than the accept loop
        // drains its backlog, so some are already reset when accept() hands them out
        for burst in 0..(if thorough { 12 } else { 4 }) {
            f += 1;
            let n = if thorough { 600 } else { 300 };
            emit("fault", json!({"f": f, "kind": "reset_burst", "len": 0, "end": "rst", "detail": {"connections": n, "burst": burst}}));
            let mut tasks = vec![];
            for _ in 0..8 {
                tasks.push(tokio::spawn(async move {
                    for _ in 0..n / 8 {
                        if let Ok(s) = TcpStream::connect(addr).await {
                            let _ = s.set_linger(Some(Duration::from_secs(0)));
                            drop(s);
                        }
                    }
                }));
            }
            for t in tasks {
                let _ = t.await;
            }
            emit("fault_closed", json!({"f": f, "why": "client reset"}));
            health(addr).await;
        }
        // 1c. descriptor exhaustion: with the limit lowered, connections are held open until nothing more can be
        // opened (accept() on the server side fails with EMFILE meanwhile); once they are released the server
        // must be answering again.
        for round in 0..(if thorough { 4 } else { 2 }) {
            f += 1;
            let mut old = libc::rlimit { rlim_cur: 0, rlim_max: 0 };
            unsafe { libc::getrlimit(libc::RLIMIT_NOFILE, &mut old) };
            let lowered = libc::rlimit { rlim_cur: 160.min(old.rlim_cur), rlim_max: old.rlim_max };
            unsafe { libc::setrlimit(libc::RLIMIT_NOFILE, &lowered) };
            emit("fault", json!({"f": f, "kind": "fd_exhaustion", "len": 0, "end": "hold", "detail": {"limit": lowered.rlim_cur, "round": round}}));
            let mut held = vec![];
            let mut failures = 0;
            while failures < 20 && held.len() < 400 {
                match tokio::time::timeout(Duration::from_millis(300), TcpStream::connect(addr)).await {
                    Ok(Ok(s)) => held.push(s),
                    _ => failures += 1,
                }
            }
            tokio::time::sleep(Duration::from_millis(400)).await;
            let n = held.len();
            drop(held);
            unsafe { libc::setrlimit(libc::RLIMIT_NOFILE, &old) };
            // the accept loop backs off for 100 ms after such an error
            tokio::time::sleep(Duration::from_millis(400)).await;
            emit("fault_closed", json!({"f": f, "why": format!("released {} held connections", n)}));
            health(addr).await;
        }
        // 2. random bytes
        for i in 0..(if thorough { 400 } else { 80 }) {
            f += 1;
            let len = if i % 7 == 0 { r.gen_range(1000..20000) } else { r.gen_range(1..200) };
            let mut g: Vec<u8> = (0..len).map(|_| r.gen()).collect();
            if i % 5 == 0 {
                // looks like HTTP for a while
                let mut p = b"GET /health HTTP/1.1\r\nhost: x\r\n".to_vec();
                p.extend_from_slice(&g);
                g = p;
            }
            fault(addr, f, "garbage", &g, "fin", json!({})).await;
            health(addr).await;
        }
        // 3. byte-level mutations of a valid request
        for _ in 0..(if thorough { 600 } else { 120 }) {
            f += 1;
            let mut m = valid.clone();
            for _ in 0..r.gen_range(1..4) {
                let i = r.gen_range(0..m.len());
                match r.gen_range(0..3) {
                    0 => m[i] = r.gen(),
                    1 => { m.remove(i); }
                    _ => m.insert(i, b"\r\n\0 :%"[r.gen_range(0..6)]),
                }
            }
            fault(addr, f, "mutated", &m, "fin", json!({})).await;
            health(addr).await;
        }
        // 4. oversized heads
        for (what, size) in [("uri", 70000usize), ("uri", 2000000), ("header", 70000), ("header", 3000000), ("many_headers", 200000)] {
            f += 1;
            let req: Vec<u8> = match what {
                "uri" => format!("GET /{} HTTP/1.1\r\nhost: x\r\n\r\n", "a".repeat(size)).into_bytes(),
                "header" => format!("GET /health HTTP/1.1\r\nhost: x\r\nx-big: {}\r\n\r\n", "b".repeat(size)).into_bytes(),
                _ => {
                    let mut s = String::from("GET /health HTTP/1.1\r\nhost: x\r\n");
                    for i in 0..size / 20 {
                        s.push_str(&format!("x-h{}: v\r\n", i));
                    }
                    s.push_str("\r\n");
                    s.into_bytes()
                }
            };
            fault(addr, f, "oversize_head", &req, "fin", json!({"what": what, "size": size})).await;
            health(addr).await;
        }
        // 5. illegal header values
        for bad in [&b"\xff\xfe"[..], b"a\x00b", b"a\x01b", b"line1\r\n folded", b"\x7f"] {
            for hname in ["content-type", "x-other", "host"] {
                f += 1;
                let mut req = format!("PUT /data HTTP/1.1\r\n{}: ", hname).into_bytes();
                req.extend_from_slice(bad);
                req.extend_from_slice(b"\r\n");
                if hname != "host" {
                    req.extend_from_slice(b"host: x\r\n");
                }
                req.extend_from_slice(b"content-length: 2\r\n\r\n{}");
                fault(addr, f, "bad_header_value", &req, "fin", json!({"header": hname})).await;
                health(addr).await;
            }
        }
        // 6. broken chunked framing, short bodies
        for body in [&b"zz\r\nabc\r\n0\r\n\r\n"[..], b"5\r\nab\r\n0\r\n\r\n", b"-1\r\n\r\n", b"5;ext\r\nabcdeXX0\r\n\r\n", b"FFFFFFFFFFFFFFFFF\r\n"] {
            f += 1;
            let mut req = b"PUT /data HTTP/1.1\r\nhost: x\r\ncontent-type: application/json\r\ntransfer-encoding: chunked\r\n\r\n".to_vec();
            req.extend_from_slice(body);
            fault(addr, f, "bad_chunking", &req, "fin", json!({})).await;
            health(addr).await;
        }
        for short in [0usize, 1, 10] {
            f += 1;
            let mut req = b"PUT /data HTTP/1.1\r\nhost: x\r\ncontent-type: application/json\r\ncontent-length: 100\r\n\r\n".to_vec();
            req.extend_from_slice(&b"{\"name\": \"w\", \"count\": 1}"[..short]);
            fault(addr, f, "length_mismatch", &req, "fin", json!({"sent": short})).await;
            health(addr).await;
        }
        // 7. panicking handlers, several at once, while half-open connections linger
        let mut held = vec![];
        for i in 0..6 {
            f += 1;
            let cut = 10 + i * 17;
            if let Some(s) = fault(addr, f, "slow_open", &valid[..cut.min(valid.len() - 1)], "hold", json!({"cut": cut})).await {
                held.push((f, s));
            }
        }
        for _ in 0..(if thorough { 40 } else { 10 }) {
            f += 1;
            let req = httpc::build_request("GET", "/panic", &[], None);
            fault(addr, f, "handler_panic", &req, "fin", json!({})).await;
            health(addr).await;
        }
        for (hf, s) in held {
            drop(s);
            emit("fault_closed", json!({"f": hf, "why": "released"}));
        }
        health(addr).await;
        // close() itself panics if the serving task has died: that is data about the server, not a driver failure
        match tokio::time::timeout(Duration::from_secs(40), tokio::spawn(server.close())).await {
            Ok(Ok(Ok(()))) => {}
            Ok(Ok(Err(e))) => emit("close_failed", json!({"why": e})),
            Ok(Err(e)) => emit("close_failed", json!({"why": format!("close() panicked: {}", e)})),
            Err(_) => emit("close_failed", json!({"why": "timeout"})),
        }

        // ------------------------------------------------------------------
        // 8. the same over TLS: stalled, truncated, garbage and plain-HTTP
        //    "handshakes"; health goes through a real TLS client
        // ------------------------------------------------------------------
        let ck = rcgen::generate_simple_self_signed(vec!["localhost".to_string()]).expect("self-signed certificate");
        let cert_pem = ck.cert.pem();
        let key_pem = ck.key_pair.serialize_pem();
        let mut api = ApiDescription::new();
        api.register(ep_health).unwrap();
        let log = slog::Logger::root(slog::Discard, slog::o!());
        let tls_server = ServerBuilder::new(api, (), log)
            .config(ConfigDropshot { bind_address: "127.0.0.1:0".parse().unwrap(), ..Default::default() })
            .tls(Some(dropshot::ConfigTls::AsBytes { certs: cert_pem.into_bytes(), key: key_pem.into_bytes() }))
            .start()
            .expect("tls server");
        let taddr = tls_server.local_addr();
        let mut roots = rustls::RootCertStore::empty();
        roots.add(ck.cert.der().clone()).expect("root");
        let cfg = rustls::ClientConfig::builder().with_root_certificates(roots).with_no_client_auth();
        let connector = tokio_rustls::TlsConnector::from(std::sync::Arc::new(cfg));
        let tls_health = |connector: tokio_rustls::TlsConnector| async move {
            let attempt = async {
                let tcp = httpc::connect(taddr).await.map_err(|e| format!("connect: {}", e.kind()))?;
                let name = rustls::pki_types::ServerName::try_from("localhost").unwrap();
                let mut tls = connector.connect(name, tcp).await.map_err(|e| format!("tls: {}", e))?;
                let req = httpc::build_request("GET", "/health", &[], None);
                tls.write_all(&req).await.map_err(|e| format!("write: {}", e.kind()))?;
                let mut rd = httpc::Reader::new();
                Ok::<_, String>(rd.read_response(&mut tls, false, Duration::from_secs(10)).await)
            };
            match tokio::time::timeout(Duration::from_secs(10), attempt).await {
                Ok(Ok(r)) => {
                    emit("health", json!({"ok": r.wellformed && r.status == 200, "status": r.status, "problem": r.problem, "tls": true}));
                    stop_if_dead(r.wellformed && r.status == 200);
                }
                Ok(Err(e)) => {
                    emit("health", json!({"ok": false, "status": 0, "problem": e, "tls": true}));
                    stop_if_dead(false);
                }
                Err(_) => {
                    emit("health", json!({"ok": false, "status": 0, "problem": "timeout", "tls": true}));
                    stop_if_dead(false);
                }
            }
        };
        tls_health(connector.clone()).await;
        let mut held = vec![];
        let hello_prefix: &[u8] = &[0x16, 0x03, 0x01, 0x02, 0x00, 0x01, 0x00, 0x01, 0xfc, 0x03, 0x03];
        for (i, (kind, bytes, end)) in [
            ("slow_open", &b""[..], "hold"),
            ("slow_open", &hello_prefix[..3], "hold"),
            ("slow_open", hello_prefix, "hold"),
            ("garbage", &b"\x00\x01\x02\xff\xfe garbage garbage"[..], "fin"),
            ("garbage", &b"GET /health HTTP/1.1\r\nhost: x\r\n\r\n"[..], "fin"),
            ("truncated", hello_prefix, "fin"),
            ("truncated_reset", hello_prefix, "rst"),
            ("slow_open", &b"\x16"[..], "hold"),
        ].into_iter().enumerate() {
            f += 1;
            let _ = i;
            if let Some(s) = fault(taddr, f, kind, bytes, end, json!({"tls": true})).await {
                held.push((f, s));
            }
            tls_health(connector.clone()).await;
            tls_health(connector.clone()).await;
        }
        for (hf, s) in held {
            drop(s);
            emit("fault_closed", json!({"f": hf, "why": "released"}));
        }
        tls_health(connector.clone()).await;
        // close() itself panics if the serving task has died: that is data about the server, not a driver failure
        match tokio::time::timeout(Duration::from_secs(40), tokio::spawn(tls_server.close())).await {
            Ok(Ok(Ok(()))) => {}
            Ok(Ok(Err(e))) => emit("close_failed", json!({"why": e})),
            Ok(Err(e)) => emit("close_failed", json!({"why": format!("close() panicked: {}", e)})),
            Err(_) => emit("close_failed", json!({"why": "timeout"})),
        }
    });
    let lines = dropshot::verif::take_memory();
    std::fs::write(&out, lines.join("\n") + "\n").unwrap();
    println!("{}", json!({"events": lines.len()}));
}
