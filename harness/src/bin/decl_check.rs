//! (R) Replay of Declaration.tla vectors (C19).  The declarations themselves
//! are compiled in from gen/generated.rs (rendered by bin/check from the same
//! vectors) in three styles: free functions, an API trait with an
//! implementation, and the API trait's generated stub.  This program builds
//! the three ApiDescriptions and compares each with what the specification
//! expects, and the three with each other.
//!
//! usage: decl_check <vectors.ndjson>

#![allow(unused_imports)]

use dropshot::channel;
use dropshot::endpoint;
use dropshot::ApiDescription;
use dropshot::HttpError;
use dropshot::HttpResponseOk;
use dropshot::RequestContext;
use dropshot::TypedBody;
use dropshot::WebsocketConnection;
use schemars::JsonSchema;
use serde::Deserialize;
use serde::Serialize;
use serde_json::json;
use serde_json::Value;
use verif_harness::*;

#[derive(Deserialize, JsonSchema)]
pub struct GenBody {
    #[allow(dead_code)]
    pub x: u32,
}
#[derive(Serialize, JsonSchema)]
pub struct GenOut {
    pub y: u32,
}

include!(concat!(env!("CARGO_MANIFEST_DIR"), "/gen/generated.rs"));

fn in_range(r: &Value, v: u64) -> bool {
    match jstr(&r["k"]).as_str() {
        "all" => true,
        "from" => v >= r["a"].as_u64().unwrap(),
        "until" => v < r["b"].as_u64().unwrap(),
        _ => {
            let (a, b) = (r["a"].as_u64().unwrap(), r["b"].as_u64().unwrap());
            if a == b { v == a } else { a <= v && v < b }
        }
    }
}

struct Style<C: dropshot::ServerContext> {
    name: &'static str,
    docs: Vec<(u64, Value, Vec<u8>)>,
    router_api: Option<ApiDescription<C>>,
}

fn docs_of<C: dropshot::ServerContext>(api: &ApiDescription<C>) -> Vec<(u64, Value, Vec<u8>)> {
    (1..=5u64)
        .map(|v| {
            let d = api.openapi("gen", semver::Version::new(v, 0, 0));
            let j = d.json().expect("json");
            let mut b = vec![];
            d.write(&mut b).expect("write");
            (v, j, b)
        })
        .collect()
}

fn check_style<C: dropshot::ServerContext>(style: Style<C>, vectors: &[Value], mism: &mut Vec<Value>, comparisons: &mut u64) {
    let name = style.name;
    for v in vectors {
        let d = &v["decl"];
        let e = &v["expected"];
        let id = d["id"].as_u64().unwrap();
        let path = format!("/d{}", id);
        let method = if jstr(&d["kind"]) == "channel" { "get".to_string() } else { jstr(&e["method"]).to_lowercase() };
        let want_opid = if jstr(&e["opid"]) == "fn-name" { format!("decl{}", id) } else { format!("custom{}", id) };
        for (ver, doc, _) in &style.docs {
            *comparisons += 1;
            let op = doc.pointer(&format!("/paths/~1d{}/{}", id, method));
            let want_listed = e["visible"].as_bool().unwrap() && in_range(&e["range"], *ver);
            if op.is_some() != want_listed {
                mism.push(json!({"what": "listed-in-document", "style": name, "decl": d, "version": ver,
                    "want": want_listed, "got": op.is_some()}));
                continue;
            }
            let Some(op) = op else { continue };
            let mut check = |what: &str, got: Value, want: Value| {
                if got != want {
                    mism.push(json!({"what": what, "style": name, "decl": d, "version": ver, "want": want, "got": got}));
                }
            };
            check("operation-id", op["operationId"].clone(), json!(want_opid));
            let mut want_tags: Vec<String> = jarr(&e["tags"]).iter().map(jstr).collect();
            want_tags.sort();
            let mut got_tags: Vec<String> = jarr(&op["tags"]).iter().map(jstr).collect();
            got_tags.sort();
            check("tags", json!(got_tags), json!(want_tags));
            check("deprecated", json!(op["deprecated"].as_bool().unwrap_or(false)), e["deprecated"].clone());
            let want_summary = if e["doc"]["hasSummary"].as_bool().unwrap() { e["doc"]["summary"].clone() } else { Value::Null };
            let want_descr = if e["doc"]["hasDescription"].as_bool().unwrap() { e["doc"]["description"].clone() } else { Value::Null };
            check("summary", op.get("summary").cloned().unwrap_or(Value::Null), want_summary);
            check("description", op.get("description").cloned().unwrap_or(Value::Null), want_descr);
            if jstr(&d["kind"]) == "channel" {
                check("websocket-extension", json!(op.get("x-dropshot-websocket").is_some()), json!(true));
            } else if method == "put" || method == "post" {
                let want_ct = if jstr(&e["ctype"]) == "form" { "application/x-www-form-urlencoded" } else { "application/json" };
                let got: Vec<String> = op.pointer("/requestBody/content").and_then(|c| c.as_object()).map(|c| c.keys().cloned().collect()).unwrap_or_default();
                check("request-content-type", json!(got), json!([want_ct]));
            }
        }
    }
    // routing
    let router = style.router_api.expect("api").into_router();
    for v in vectors {
        let d = &v["decl"];
        let e = &v["expected"];
        let id = d["id"].as_u64().unwrap();
        let method: http::Method = if jstr(&d["kind"]) == "channel" { http::Method::GET } else { jstr(&e["method"]).parse().unwrap() };
        let want_opid = if jstr(&e["opid"]) == "fn-name" { format!("decl{}", id) } else { format!("custom{}", id) };
        for ver in 1..=5u64 {
            *comparisons += 1;
            let sv = semver::Version::new(ver, 0, 0);
            let path = format!("/d{}", id);
            let res = router.lookup_route(&method, path.as_str().into(), Some(&sv));
            let want = in_range(&e["range"], ver);
            match res {
                Ok(l) => {
                    if !want {
                        mism.push(json!({"what": "served-outside-range", "style": name, "decl": d, "version": ver}));
                        continue;
                    }
                    if l.endpoint.operation_id != want_opid {
                        mism.push(json!({"what": "routed-operation-id", "style": name, "decl": d, "got": l.endpoint.operation_id}));
                    }
                    let want_max = e["maxbytes"].as_u64().filter(|x| *x != 0).map(|x| x as usize);
                    if l.endpoint.request_body_max_bytes != want_max {
                        mism.push(json!({"what": "body-limit", "style": name, "decl": d,
                            "got": l.endpoint.request_body_max_bytes, "want": want_max}));
                    }
                    let want_ct = if jstr(&e["ctype"]) == "form" { "application/x-www-form-urlencoded" } else { "application/json" };
                    if l.endpoint.body_content_type.mime_type() != want_ct {
                        mism.push(json!({"what": "routed-content-type", "style": name, "decl": d,
                            "got": l.endpoint.body_content_type.mime_type()}));
                    }
                }
                Err(_) => {
                    if want {
                        mism.push(json!({"what": "not-served-in-range", "style": name, "decl": d, "version": ver}));
                    }
                }
            }
        }
    }
}

/// The declared body limit is what the server *applies*: serve the API (header version policy), and send each
/// PUT / POST declaration a body of exactly its effective limit (declared, else the server default) and one
/// byte more.
fn live_limits(name: &'static str, api: ApiDescription<()>, vectors: &[Value], mism: &mut Vec<Value>, comparisons: &mut u64) {
    use dropshot::{ClientSpecifiesVersionInHeader, ConfigDropshot, ServerBuilder, VersionPolicy};
    use verif_harness::httpc;
    const DEFAULT: usize = 1024;
    let rt = tokio::runtime::Builder::new_multi_thread().worker_threads(2).enable_all().build().unwrap();
    let found: Vec<Value> = rt.block_on(async {
        let mut found = vec![];
        let policy = VersionPolicy::Dynamic(Box::new(ClientSpecifiesVersionInHeader::new(
            "x-api-version".parse::<http::HeaderName>().unwrap(),
            semver::Version::new(9, 0, 0),
        )));
        let log = slog::Logger::root(slog::Discard, slog::o!());
        let server = match ServerBuilder::new(api, (), log)
            .config(ConfigDropshot { bind_address: "127.0.0.1:0".parse().unwrap(), default_request_body_max_bytes: DEFAULT, ..Default::default() })
            .version_policy(policy)
            .start()
        {
            Ok(s) => s,
            Err(e) => return vec![json!({"what": "server-failed-to-start", "style": name, "msg": e.to_string()})],
        };
        let addr = server.local_addr();
        for v in vectors {
            let d = &v["decl"];
            let e = &v["expected"];
            if jstr(&d["kind"]) != "endpoint" {
                continue;
            }
            let method = jstr(&e["method"]);
            if method != "PUT" && method != "POST" {
                continue;
            }
            let Some(ver) = (1..=5u64).find(|x| in_range(&e["range"], *x)) else { continue };
            let declared = e["maxbytes"].as_u64().unwrap_or(0) as usize;
            let limit = if declared == 0 { DEFAULT } else { declared };
            let form = jstr(&e["ctype"]) == "form";
            for (len, want_ok) in [(limit, true), (limit + 1, false), (limit / 2, true)] {
                let body: Vec<u8> = if form {
                    let head = "x=1&p=";
                    format!("{}{}", head, "a".repeat(len - head.len())).into_bytes()
                } else {
                    let head = "{\"x\":1";
                    format!("{}{}}}", head, " ".repeat(len - head.len() - 1)).into_bytes()
                };
                let hdr = vec![
                    ("x-api-version".to_string(), format!("{}.0.0", ver)),
                    ("content-type".to_string(), if form { "application/x-www-form-urlencoded".to_string() } else { "application/json".to_string() }),
                ];
                let req = httpc::build_request(&method, &format!("/d{}", d["id"].as_u64().unwrap()), &hdr, Some(&body));
                let resp = httpc::oneshot(addr, &req, false, std::time::Duration::from_secs(10)).await.unwrap_or_default();
                let ok = (200..300).contains(&resp.status);
                let refused = (400..500).contains(&resp.status);
                if (want_ok && !ok) || (!want_ok && !refused) {
                    found.push(json!({"what": "effective-body-limit", "style": name, "decl": d, "declared": declared,
                        "body_bytes": len, "status": resp.status, "want": if want_ok { "accepted" } else { "refused with a 4xx" }}));
                }
            }
        }
        let _ = server.close().await;
        found
    });
    *comparisons += 3 * vectors.len() as u64;
    mism.extend(found);
}

fn main() {
    quiet_panics();
    let args: Vec<String> = std::env::args().collect();
    let text = std::fs::read_to_string(&args[1]).expect("vectors");
    let vectors: Vec<Value> = text.lines().filter(|l| !l.trim().is_empty()).map(|l| serde_json::from_str(l).unwrap()).collect();
    let mut mism: Vec<Value> = vec![];
    let mut comparisons = 0u64;

    let build_fn = || -> Result<ApiDescription<()>, String> {
        let mut api = ApiDescription::new();
        register_fn_style(&mut api)?;
        Ok(api)
    };
    let results = catch(std::panic::AssertUnwindSafe(|| {
        let fn_api = build_fn()?;
        let fn_docs = docs_of(&fn_api);
        let tr_api = gen_api_mod::api_description::<GenImpl>().map_err(|e| e.to_string())?;
        let tr_docs = docs_of(&tr_api);
        let st_api = gen_api_mod::stub_api_description().map_err(|e| e.to_string())?;
        let st_docs = docs_of(&st_api);
        Ok::<_, String>((fn_api, fn_docs, tr_api, tr_docs, st_api, st_docs))
    }));
    match results {
        Err(msg) => mism.push(json!({"what": "panic-while-building-api", "msg": msg})),
        Ok(Err(msg)) => mism.push(json!({"what": "registration-failed", "msg": msg})),
        Ok(Ok((fn_api, fn_docs, tr_api, tr_docs, st_api, st_docs))) => {
            // the three styles yield identical documents
            for i in 0..fn_docs.len() {
                comparisons += 2;
                if fn_docs[i].2 != tr_docs[i].2 {
                    mism.push(json!({"what": "styles-differ", "style": "fn-vs-trait", "version": fn_docs[i].0}));
                }
                if tr_docs[i].2 != st_docs[i].2 {
                    mism.push(json!({"what": "styles-differ", "style": "trait-vs-stub", "version": fn_docs[i].0}));
                }
            }
            check_style(Style { name: "fn", docs: fn_docs, router_api: Some(fn_api) }, &vectors, &mut mism, &mut comparisons);
            check_style(Style { name: "trait", docs: tr_docs, router_api: Some(tr_api) }, &vectors, &mut mism, &mut comparisons);
            check_style(Style { name: "stub", docs: st_docs, router_api: Some(st_api) }, &vectors, &mut mism, &mut comparisons);
            // the limits as applied by a live server (the stub has no handlers to serve with)
            if let Ok(api) = build_fn() {
                live_limits("fn", api, &vectors, &mut mism, &mut comparisons);
            }
            if let Ok(api) = gen_api_mod::api_description::<GenImpl>() {
                live_limits("trait", api, &vectors, &mut mism, &mut comparisons);
            }
        }
    }
    mism.truncate(100);
    println!("{}", json!({"ok": mism.is_empty(), "mismatches": mism, "comparisons": comparisons}));
}
